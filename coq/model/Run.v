(* Run.v — entry point used by the extracted driver and by the in-Coq
   cross-check: one case (as written by the harness) and the implementation's
   observation in, the model's observation and the spec verdicts out. *)
From Model Require Import Str Sexp Http Cors Template Table Curly DetectRoute Jsr311 Router Options Dispatch Response Pool Registry Entity Negotiate Builder.
From Spec Require Import CorsSpec RouteSpec RankSpec DispatchSpec.

Definition verdict (name : string) (b : bool) : sexp := Lst [A (L name); of_bool b].

(* ---- domain "cors" (C08, C09) ----
   case: (oracles cfg computed request)
   impl: (acl-headers invoked twin-equal) *)
Definition impl_hvalues (k : str) (acl : sexp) : list str :=
  concat (map (fun row => if str_eqb (sx_str (sx_nth 0 row)) k then sx_strs (sx_nth 1 row) else [])
              (sx_list acl)).

(* verdict lists of several requests are combined name-wise by conjunction *)
Fixpoint and_verdicts (a b : list sexp) : list sexp :=
  match a, b with
  | x :: a', y :: b' => Lst [sx_nth 0 x; of_bool (sx_bool (sx_nth 1 x) && sx_bool (sx_nth 1 y))] :: and_verdicts a' b'
  | _, _ => a
  end.

(* one request of a sequence served by one filter value *)
Definition run_cors_one (O : oracles) (cfg : cors_cfg) (t : table) (req : request) (impl : sexp)
  : sexp * list sexp * string * bool :=
  let computed := compute_allowed_methods O t (rq_path req) in
  let probe := sx_int (sx_nth 3 impl) in
  let kf := Nat.ltb 1 (List.length (filter (fun w => match jsr_match O (pe_toks (path_expression (s_root w))) (rq_path req) with
                                | Some _ => true | None => false end) (t_services t)))
            || negb (match rq_path req with
                     | c0 :: p' => Ascii.eqb c0 slash && match rev (split slash p') with [] => true | _ :: init => forallb (fun s => negb (str_eqb s [])) init end
                     | [] => false end) in
  let origin := hget req H_Origin in
  let '(hs, pass) := cors_decide O cfg computed req in
  let routed_ok := match route_request O t req with RInvoke _ _ _ => true | _ => false end in
  let acl := sx_nth 0 impl in
  let invoked := sx_bool (sx_nth 1 impl) in
  let twin := sx_bool (sx_nth 2 impl) in
  let any := negb (Nat.eqb (List.length (sx_list acl)) 0) in
  let al := allowedb O cfg origin in
  let pre := is_preflight req in
  let granted := preflight_grantedb O cfg computed req in
  let cls := match origin with
             | [] => "no-origin"
             | _ => if negb al then "not-allowed"
                    else if negb pre then "actual"
                    else if granted then "preflight-granted" else "preflight-refused"
             end%string in
  ( Lst [canon_headers hs; of_bool (pass && routed_ok)],
    [ verdict "c08_grant_only_if_allowed" (implb any al);
      verdict "c08_origin_echoed_once"
        (implb any (match impl_hvalues H_ACAllowOrigin acl with
                    | [v] => str_eqb v origin | _ => false end));
      verdict "c08_credentials_iff_configured"
        (implb any (Bool.eqb (negb (Nat.eqb (List.length (impl_hvalues H_ACAllowCredentials acl)) 0))
                             (c_cookies cfg)));
      verdict "c08_transparent_when_not_allowed" (implb (negb al) (twin && negb any));
      verdict "c09_preflight_answered_by_filter" (implb (al && pre) (negb invoked));
      verdict "c09_preflight_grant_iff_allowed" (implb (al && pre) (Bool.eqb any granted));
      verdict "c09_preflight_grant_headers"
        (implb (al && pre && granted)
               (match impl_hvalues H_ACAllowMethods acl, impl_hvalues H_ACAllowHeaders acl with
                | [m], [h] => str_eqb h (hget req H_ACRequestHeaders)
                              && sexp_eqb (of_strs (sort_strs (nodup_str (split comma m))))
                                          (of_strs (sort_strs (nodup_str (match c_methods cfg with [] => computed | x => x end))))
                | _, _ => false
                end));
      verdict "c09_actual_request_continues"
        (implb (al && negb pre) (any && Bool.eqb invoked routed_ok
                                 && Nat.eqb (List.length (impl_hvalues H_ACAllowOrigin acl)) 1));
      (* the library's own filter is a filter like any other: the route function behind it runs once when the filter
         passes control on and the request is routed, and not at all otherwise *)
      verdict "c06_route_function_runs_exactly_once_behind_the_cors_filter"
              (Z.eqb (sx_int (sx_nth 1 impl)) (if pass && routed_ok then 1 else 0));
      verdict "c19_cors_history_independent" (sx_bool (sx_nth 4 impl));
      (* services with CORS filters of their own, asked concurrently: a sixth field, when present, says whether every
         answer came from the filter of its own service *)
      verdict "c08_concurrent_requests_answered_by_their_own_filter"
              (match sx_list impl with [_; _; _; _; _; f] => sx_bool f | _ => true end);
      verdict "c09_computed_methods_are_routable"
        (implb (al && pre && any && match c_methods cfg with [] => true | _ => false end)
               (negb (Z.eqb probe 404) && negb (Z.eqb probe 405))) ],
    cls, kf ).

(* case: (oracles cfg table (request ...)) ; impl: ((acl invoked twin) ...) *)
Definition run_cors (c impl : sexp) : sexp :=
  let O := sx_oracles (sx_nth 0 c) in
  let cfg := sx_cors (sx_nth 1 c) in
  let t := sx_table (sx_nth 2 c) in
  let reqs := map sx_request (sx_list (sx_nth 3 c)) in
  (* optionally one WebService.RemoveRoute before request [cut]: (cut root method full-path) *)
  let mut := sx_list (sx_nth 4 c) in
  let t_after :=
    match mut with
    | [_; root; m; full] =>
        {| t_router := t_router t;
           t_services := map (fun w =>
               if str_eqb (ws_path (s_root w)) (ws_path (sx_str root))
               then {| s_root := s_root w;
                       s_routes := filter (fun r => negb (str_eqb (r_method r) (sx_str m) && str_eqb (route_path w r) (sx_str full)))
                                          (s_routes w) |}
               else w) (t_services t) |}
    | _ => t
    end in
  let cut := match mut with c0 :: _ => Z.to_nat (sx_int c0) | [] => List.length reqs end in
  let table_at (k : nat) := if Nat.leb cut k then t_after else t in
  (* optionally the configured predicate changes its mind before request [cut2]: (cut2 accepted-origins) *)
  let flip := sx_list (sx_nth 5 c) in
  let cfg_after :=
    match flip with
    | [_; acc] => {| c_expose := c_expose cfg; c_headers := c_headers cfg; c_domains := c_domains cfg;
                     c_func := sx_func (Lst [acc]); c_methods := c_methods cfg; c_maxage := c_maxage cfg;
                     c_cookies := c_cookies cfg |}
    | _ => cfg
    end in
  let cut2 := match flip with c0 :: _ => Z.to_nat (sx_int c0) | [] => List.length reqs end in
  let cfg_at (k : nat) := if Nat.leb cut2 k then cfg_after else cfg in
  let res := map (fun kp => run_cors_one O (cfg_at (fst kp)) (table_at (fst kp)) (fst (snd kp)) (snd (snd kp)))
                 (combine (seq 0 (List.length reqs)) (combine reqs (sx_list impl))) in
  let obs := map (fun x => fst (fst (fst x))) res in
  let vs := match res with
            | [] => []
            | x :: rest => fold_left (fun a y => and_verdicts a (snd (fst (fst y)))) rest (snd (fst (fst x)))
            end in
  let cls := match rev res with x :: _ => snd (fst x) | [] => "empty"%string end in
  Lst [ Lst obs; Lst vs; A (L cls);
        Lst [ verdict "sequence_longer_than_one" (Nat.ltb 1 (List.length reqs));
              verdict "route_removed_in_between" (negb (Nat.eqb (List.length mut) 0));
              verdict "predicate_changes_its_mind" (negb (Nat.eqb (List.length flip) 0));
              verdict "kf:K-C09-1" (existsb (fun x => snd x) res) ] ].

(* ---- domain "route" (C01 C02 C03 C04 C14 C17 C18) ----
   case: (oracles table request)
   impl / model observation: (class status allow invoked params selpath selok)
     class 0 = a route function ran, 1 = error response, 2 = panic escaped *)
Definition of_params (ps : list (str * str)) : sexp :=
  let keys := sort_strs (map fst ps) in
  Lst (map (fun k => Lst [A k; A (match assoc k ps with Some v => v | None => [] end)]) keys).

Definition routed_obs (t : table) (x : routed) : sexp :=
  match x with
  | RInvoke w r ps =>
      Lst [I 0; I 200; Lst []; Lst [I (r_id r)]; of_params ps; A (route_path w r); I 1]
  | RError e =>
      let '(st, allow) := match e with
                          | E404 => (404, []) | E405 a => (405, a) | E415 => (415, []) | E406 => (406, [])
                          end%Z in
      Lst [I 1; I st; of_strs (sort_strs allow); Lst []; Lst []; A []; I 1]
  | RPanic => Lst [I 2; I 200; Lst []; Lst []; Lst []; A []; I 1]
  end.

Fixpoint find_route (id : Z) (wss : list service) : option (service * route) :=
  match wss with
  | [] => None
  | w :: wss' =>
      match find (fun r => Z.eqb (r_id r) id) (s_routes w) with
      | Some r => Some (w, r)
      | None => find_route id wss'
      end
  end.

(* canonical parameter map of the spec's bindings (later binding of a name wins) *)
Definition canon_bindings (b : list (str * str)) : sexp :=
  of_params (fold_left (fun m kv => pset (fst kv) (snd kv) m) b []).

Definition obs_core (x : sexp) : sexp := Lst (firstn 5 (sx_list x)).

(* what ServeHTTP answers in a registration state (Registry model), in the shape of the route domain's observations *)
Definition serve_obs_of (t : table) (a : reg_answer) : sexp :=
  match a with
  | GRouted x => routed_obs t x
  | GRedirect loc => Lst [I 1; I 301; Lst []; Lst []; Lst []; A loc; I 1]
  | GMux404 => Lst [I 1; I 404; Lst []; Lst []; Lst []; A []; I 1]
  | GPlain _ => Lst [I 1; I 200; Lst []; Lst []; Lst []; A []; I 1]
  end.

Definition run_route (c impl : sexp) : sexp :=
  let O := sx_oracles (sx_nth 0 c) in
  let t := sx_table (sx_nth 1 c) in
  let req := sx_request (sx_nth 2 c) in
  let x := route_request O t req in
  (* what the implementation did *)
  let i_class := sx_int (sx_nth 0 impl) in
  let i_invoked := map sx_int (sx_list (sx_nth 3 impl)) in
  let i_params := sx_nth 4 impl in
  let i_selpath := sx_str (sx_nth 5 impl) in
  let i_selok := sx_bool (sx_nth 6 impl) in
  let inv := match i_invoked with [id] => find_route id (t_services t) | _ => None end in
  let wf_inv := match inv with Some (w, r) => wf_route_for t w r | None => false end in
  let v_c01 := match i_invoked, inv with
               | [], _ => true
               | [_], Some (w, r) => implb (wf_route_for t w r) (admits_for O t w r req)
               | _, _ => false
               end in
  let v_sel := match i_invoked, inv with
               | [], _ => true
               | [_], Some (w, r) => i_selok && str_eqb i_selpath (route_path w r)
               | _, _ => false
               end in
  let v_c04 := match i_invoked, inv with
               | [_], Some (w, r) =>
                   implb (wf_route_for t w r && distinct (names_for t w r))
                         (sexp_eqb i_params (canon_bindings (bindings_for t w r (rq_path req))))
               | _, _ => true
               end in
  (* C02: the service is the router's choice, the outcome is the declarative cascade
     over the routes of that service whose template admits the path *)
  let best := match t_router t with
              | Curly => detect_web_service O (tokenize (rq_path req)) (t_services t)
              | Jsr311 => match detect_dispatcher O (rq_path req) (t_services t) with
                          | Some (w, _) => Some w | None => None end
              end in
  let expected := match best with
                  | None => SStatus 404 []
                  | Some w =>
                      spec_cascade (filter (fun r =>
                          match t_router t with
                          | Curly => admits_path O (route_tpl w r) (tokenize (rq_path req))
                          | Jsr311 => jsr_admits_path O w r (rq_path req)
                          end) (s_routes w)) req
                  end in
  let wf_best := match best with
                 | None => true
                 | Some w => forallb (wf_route_for t w) (s_routes w)
                 end in
  let v_c02 := implb wf_best
                 (outcome_meets expected i_class (sx_int (sx_nth 1 impl)) (sx_strs (sx_nth 2 impl)) i_invoked) in
  let cls := match x with
             | RInvoke _ _ _ => "invoked"
             | RError E404 => "404" | RError (E405 _) => "405" | RError E415 => "415" | RError E406 => "406"
             | RPanic => "panic"
             end%string in
  (* a ninth field of the observation, when present: the answer of ServeHTTP after the FIRST service of the table was
     removed again (Container.Remove rebuilds the mux) - it must be the answer of the registration state reached by
     adding all services in order and removing the first (Registry model, theorem C11) *)
  let after_remove :=
    match t_services t with
    | w0 :: _ =>
        let st := cs_run cs_init (map (fun w => RAdd (s_root w) (s_routes w)) (t_services t) ++ [RRemove (s_root w0)]) 0 in
        match snd st with
        | None => Some (serve_obs_of (cs_table (t_router t) (fst st)) (serve_http O (t_router t) (fst st) req))
        | Some _ => None
        end
    | [] => None
    end in
  let v_after_remove :=
    match sx_list impl, after_remove with
    | [_; _; _; _; _; _; _; _; o], Some e => sexp_eqb (obs_core o) (obs_core e)
    | _, _ => true
    end in
  Lst [ routed_obs t x;
        Lst [ verdict "c02_outcome_after_a_service_was_removed_through_servehttp" v_after_remove;
              verdict "c01_invoked_route_admits_request" v_c01;
              verdict "c01_selected_route_is_invoked_route" v_sel;
              verdict "c04_parameters_are_the_url_text" v_c04;
              verdict "c02_no_panic" (negb (Z.eqb i_class 2));
              verdict "c02_outcome_exact" v_c02;
              verdict "c19_same_answer_with_tracing_flipped" (sx_bool (sx_nth 7 impl)) ];
        A (L cls);
        Lst [ verdict "wf_invoked_route" wf_inv; verdict "wf_best_service" wf_best;
              verdict "jsr_tokens_agree_on_invoked" (match t_router t, inv with
                                                     | Jsr311, Some (w, r) => jsr_tokens_agree w r && jsr_names_agree w r
                                                     | _, _ => false end);
              verdict "jsr311" (match t_router t with Jsr311 => true | Curly => false end);
              verdict "first_service_removed_again" (Nat.eqb (List.length (sx_list impl)) 9);
              verdict "trace_logging_on" (sx_bool (sx_nth 3 c)) ] ].

(* ---- domain "slash" (C14): (oracles table request), impl = (obs(p) obs(p/)) ---- *)
Definition has_tail_template (t : table) : bool :=
  existsb (fun w => existsb (fun r => existsb (fun tok => is_tail (parse_tok false tok))
                                              (tokenize (s_root w) ++ tokenize (r_rel r)))
                            (s_routes w)) (t_services t).

(* some template has a token that the compiled expression lets match the empty string: a tail wildcard, or a
   regular expression that admits "" (oracle) *)
Definition has_emptiable_token (O : oracles) (t : table) : bool :=
  existsb (fun w => existsb (fun r => existsb (fun tok => match fst (etok_of tok) with
                                                          | EAll => true
                                                          | ERx re => o_rxfull O re []
                                                          | _ => false end)
                                              (tokenize (s_root w) ++ tokenize (r_rel r)))
                            (s_routes w)) (t_services t).

Definition run_slash (c impl : sexp) : sexp :=
  let O := sx_oracles (sx_nth 0 c) in
  let t := sx_table (sx_nth 1 c) in
  let req := sx_request (sx_nth 2 c) in
  let req2 := {| rq_method := rq_method req; rq_path := rq_path req ++ [slash];
                 rq_headers := rq_headers req; rq_clen := rq_clen req |} in
  let x1 := route_request O t req in
  let x2 := route_request O t req2 in
  let i1 := sx_nth 0 impl in
  let i2 := sx_nth 1 impl in
  (* optionally the OPTIONS filter is installed and the request is an OPTIONS request: the filter answers with the
     Allow list it computes for the URL (compared as a set of names) *)
  let opt := sx_bool (sx_nth 3 c) && str_eqb (rq_method req) (L "OPTIONS") in
  let opt_obs (rq : request) :=
    Lst [I 1; I 200; of_strs (sort_strs (nodup_str (compute_allowed_methods O t (rq_path rq)))); Lst []; Lst []; A []; I 1] in
  let in_scope := match t_router t with Curly => true | Jsr311 => negb (has_tail_template t) end in
  let cls := match x1 with
             | RInvoke _ _ _ => "invoked"
             | RError E404 => "404" | RError (E405 _) => "405" | RError E415 => "415" | RError E406 => "406"
             | RPanic => "panic"
             end%string in
  (* through ServeHTTP: when the mux the container builds for these services (Add in table order) hands both p and
     p/ to dispatch, the two answers are the same there too *)
  let st := cs_run cs_init (map (fun w => RAdd (s_root w) (s_routes w)) (t_services t)) 0 in
  let both_dispatch :=
    match snd st with
    | Some _ => false
    | None => match mux_serve (cs_mux (fst st)) (rq_path req), mux_serve (cs_mux (fst st)) (rq_path req2) with
              | MTarget TDispatch, MTarget TDispatch => true
              | _, _ => false
              end
    end in
  (* the model of computeAllowedMethods is validated on tables of plain tokens (domain allow); elsewhere the filter's
     two answers are only compared with each other (the model echoes them) *)
  let opt_modelled := forallb (fun w => forallb plain_tok (root_tpl w)
                                        && forallb (fun r => forallb plain_tok (route_tpl w r)) (s_routes w)) (t_services t) in
  Lst [ (if opt then (if opt_modelled then Lst [opt_obs req; opt_obs req2] else Lst [i1; i2])
         else Lst [routed_obs t x1; routed_obs t x2]);
        Lst [ verdict "c14_same_outcome" (implb in_scope (sexp_eqb i1 i2));
              verdict "c14_same_outcome_through_servehttp"
                (implb (in_scope && both_dispatch) (sexp_eqb (sx_nth 2 impl) (sx_nth 3 impl))) ];
        A (L cls);
        Lst [ verdict "in_scope" in_scope; verdict "both_reach_dispatch_through_the_mux" both_dispatch;
              verdict "options_filter_asked" opt;
              verdict "hypotheses_of_C14_options_list"
                (opt && table_plain O t && negb (match rev (rq_path req) with ch :: _ => Ascii.eqb ch slash | [] => true end));
              verdict "kf:K-C14-1" (opt && has_emptiable_token O t);
              verdict "hypotheses_of_C14_jsr"
                (match t_router t with
                 | Jsr311 => table_plain O t && negb (match rev (rq_path req) with ch :: _ => Ascii.eqb ch slash | [] => true end)
                 | Curly => false end) ] ].

(* ---- domain "allow" (C17): (oracles table request)
   impl: (((method status allow-set) ...) (status allow-list acam-list invoked) untouched) ---- *)
Definition with_method (req : request) (m : str) : request :=
  {| rq_method := m; rq_path := rq_path req; rq_headers := rq_headers req; rq_clen := rq_clen req |}.

Definition status_of (x : routed) : Z :=
  match x with
  | RInvoke _ _ _ => 200 | RError E404 => 404 | RError (E405 _) => 405
  | RError E415 => 415 | RError E406 => 406 | RPanic => 500
  end%Z.

Definition set_eqb (a b : list str) : bool :=
  forallb (fun x => mem x b) a && forallb (fun x => mem x a) b.

(* a path as clients normally send it: leading slash, no empty segment except one trailing *)
Definition clean_path (p : str) : bool :=
  match p with
  | c :: p' =>
      Ascii.eqb c slash &&
      match rev (split slash p') with
      | [] => true
      | _ :: init => forallb (fun s => negb (str_eqb s [])) init
      end
  | [] => false
  end.

Definition roots_matching (O : oracles) (t : table) (p : str) : nat :=
  List.length (filter (fun w => match jsr_match O (pe_toks (path_expression (s_root w))) p with
                                | Some _ => true | None => false end) (t_services t)).

Fixpoint drop_nth {A} (k : nat) (l : list A) : list A :=
  match l, k with
  | [], _ => []
  | _ :: l', O => l'
  | x :: l', S k' => x :: drop_nth k' l'
  end.

Definition run_allow (c impl : sexp) : sexp :=
  let O := sx_oracles (sx_nth 0 c) in
  let t0 := sx_table (sx_nth 1 c) in
  (* optionally a registration history: (k) = the k-th service was registered, the OPTIONS filter was asked, and the
     service was removed; what counts is the table without it *)
  let t := match sx_list (sx_nth 3 c) with
           | [k] => {| t_router := t_router t0; t_services := drop_nth (sx_nat k) (t_services t0) |}
           | _ => t0
           end in
  let req := sx_request (sx_nth 2 c) in
  let probes := sx_list (sx_nth 0 impl) in
  let options := sx_nth 1 impl in
  let untouched := sx_bool (sx_nth 2 impl) in
  let universe := map (fun p => sx_str (sx_nth 0 p)) probes in
  (* model *)
  let m_probe m := let x := route_request O t (with_method req m) in
                   Lst [A m; I (status_of x);
                        of_strs (sort_strs (match x with RError (E405 a) => a | _ => [] end))] in
  let computed := compute_allowed_methods O t (rq_path req) in
  let m_obs := Lst [Lst (map m_probe universe); Lst [I 200; of_strs computed; of_strs computed; I 0]; I 1] in
  (* spec on the implementation's data *)
  let i_status p := sx_int (sx_nth 1 p) in
  let routable := map (fun p => sx_str (sx_nth 0 p))
                      (filter (fun p => negb (Z.eqb (i_status p) 404) && negb (Z.eqb (i_status p) 405)) probes) in
  let v405 := forallb (fun p => implb (Z.eqb (i_status p) 405) (set_eqb (sx_strs (sx_nth 2 p)) routable)) probes in
  let vopt := set_eqb (sx_strs (sx_nth 1 options)) routable && set_eqb (sx_strs (sx_nth 2 options)) routable in
  let vself := Z.eqb (sx_int (sx_nth 3 options)) 0 && untouched in
  let multi := Nat.ltb 1 (roots_matching O t (rq_path req)) in
  let unclean := negb (clean_path (rq_path req)) in
  let cls := (if existsb (fun p => Z.eqb (i_status p) 405) probes then "has-405"
              else if negb (Nat.eqb (List.length routable) 0) then "all-routable" else "404")%string in
  Lst [ m_obs;
        Lst [ verdict "c17_405_allow_truth" v405;
              verdict "c17_options_truth" vopt;
              verdict "c17_options_answers_itself" vself ];
        A (L cls);
        Lst [ verdict "kf:K-C17-1" multi;
              verdict "kf:K-C17-2" (unclean && match t_router t with Curly => true | Jsr311 => false end);
              verdict "kf:K-C17-3" (existsb (fun w => existsb (fun r => negb (forallb (fun b => b) (r_conds r))) (s_routes w))
                                            (t_services t));
              verdict "single_root_and_clean" (negb multi && negb unclean);
              verdict "service_removed_after_first_answer" (negb (Nat.eqb (List.length (sx_list (sx_nth 3 c))) 0)) ] ].

(* ---- domain "twin" (C18): (oracles table request), impl = (obs under CurlyRouter, obs under RouterJSR311) ---- *)
Definition class_of (x : routed) : string :=
  match x with
  | RInvoke _ _ _ => "invoked"
  | RError E404 => "404" | RError (E405 _) => "405" | RError E415 => "415" | RError E406 => "406"
  | RPanic => "panic"
  end.

Definition run_twin (c impl : sexp) : sexp :=
  let O := sx_oracles (sx_nth 0 c) in
  let t0 := sx_table (sx_nth 1 c) in
  let tc := {| t_router := Curly; t_services := t_services t0 |} in
  let tj := {| t_router := Jsr311; t_services := t_services t0 |} in
  let req := sx_request (sx_nth 2 c) in
  let xc := route_request O tc req in
  let xj := route_request O tj req in
  let frag := c18_fragment tc in
  let clean := clean_path (rq_path req) in
  let unamb := unambiguous O tc req in
  (* the premises of Props.C18_agree_literal_roots or of Props.C18_agree_final (the proved positive half) *)
  let agree_hyps :=
    roots_literal (t_services t0) && roots_distinct (t_services t0) && c18_clean (rq_path req)
    && match detect_web_service O (tokenize (rq_path req)) (t_services t0) with
       | Some w =>
           forallb (wf_route w) (s_routes w)
           && tokens_agree (s_root w) && forallb (fun r => tokens_agree (r_rel r)) (s_routes w)
           && forallb (jsr_names_agree w) (s_routes w)
           && c18_service_ok w
           && (c18_chain O w req                                                    (* C18_agree_literal_roots *)
               || (distinct (map (route_key w) (s_routes w)) && c18_chain_weak O w req))   (* C18_agree_final *)
       | None => true
       end in
  Lst [ Lst [routed_obs tc xc; routed_obs tj xj];
        Lst [ verdict "c18_routers_agree" (implb frag (sexp_eqb (sx_nth 0 impl) (sx_nth 1 impl)));
              (* several clients at once under either router: everyone got the answer a lone client gets (third field of
                 the observation, present when the case asks for a concurrent batch) *)
              verdict "c18_concurrent_clients_answered_as_alone"
                      (match sx_list impl with [_; _; flag] => sx_bool flag | _ => true end) ];
        A (L (class_of xc));
        Lst [ verdict "kf:K-C18-1" (negb unamb); verdict "kf:K-C18-2" (negb clean);
              verdict "in_fragment" frag; verdict "hypotheses_of_C18_partial" (frag && clean && unamb);
              verdict "hypotheses_of_C18_agree" agree_hyps;
              verdict "concurrent_batch" (negb (Nat.eqb (List.length (sx_list (sx_nth 3 c))) 0)) ] ].

(* ---- domain "perm" (C03): (oracles table request perms), impl = (obs of the base order, obs per permutation) ---- *)
Definition apply_perm (t : table) (p : sexp) : table :=
  let so := map sx_nat (sx_list (sx_nth 0 p)) in
  let ro := sx_list (sx_nth 1 p) in
  {| t_router := t_router t;
     t_services := flat_map (fun i =>
        match nth_error (t_services t) i with
        | Some w => [{| s_root := s_root w;
                        s_routes := flat_map (fun j => match nth_error (s_routes w) j with Some r => [r] | None => [] end)
                                             (map sx_nat (sx_list (nth i ro (Lst [])))) |}]
        | None => []
        end) so |}.


Definition run_perm (c impl : sexp) : sexp :=
  let O := sx_oracles (sx_nth 0 c) in
  let t := sx_table (sx_nth 1 c) in
  let req := sx_request (sx_nth 2 c) in
  let perms := sx_list (sx_nth 3 c) in
  let tables := t :: map (apply_perm t) perms in
  let xs := map (fun tb => route_request O tb req) tables in
  let iobs := sx_list impl in
  let scope := c03_in_scope t in
  let same := match iobs with
              | [] => true
              | o0 :: rest => forallb (fun o => sexp_eqb (obs_core o) (obs_core o0)) rest
              end in
  (* the same through ServeHTTP: the 8th element of each build's observation *)
  let same_serve := match iobs with
                    | [] => true
                    | o0 :: rest => forallb (fun o => sexp_eqb (sx_nth 7 o) (sx_nth 7 o0)) rest
                    end in
  let tie := match t_router t with Curly => score_tie O t (tokenize (rq_path req)) | Jsr311 => false end in
  (* best match on every build of the implementation *)
  let best_ok := forallb (fun ot =>
      let o := fst ot in let tb := snd ot in
      match map sx_int (sx_list (sx_nth 3 o)) with
      | [id] => match find_route id (t_services tb) with
                | Some (w, r) => implb (forallb (wf_route_for tb w) (s_routes w)) (best_match_ok O tb w r req)
                | None => false
                end
      | _ => true
      end) (combine iobs tables) in
  (* the premises of Props.C03_order_curly / C03_order_jsr, evaluated on this case *)
  let hyp_order := keys_distinct t &&
                   match t_router t with
                   | Curly => top_unique O (tokenize (rq_path req)) (t_services t)
                   | Jsr311 => jsr_keys_unique O (rq_path req) (t_services t)
                   end in
  Lst [ Lst (map (fun xt => routed_obs (snd xt) (fst xt)) (combine xs tables));
        Lst [ verdict "c03_order_independent" (implb scope same);
              verdict "c03_order_theorem_on_implementation" (implb hyp_order same);
              verdict "c03_order_independent_through_servehttp" (implb scope same_serve);
              verdict "c03_best_match" best_ok ];
        A (L (match xs with x :: _ => class_of x | [] => "empty"%string end));
        Lst [ verdict "kf:K-C03-1" tie;
              verdict "kf:K-C03-2" (existsb (fun ot => match sx_list (sx_nth 3 (fst ot)) with
                                                        | [idx] => match find_route (sx_int idx) (t_services (snd ot)) with
                                                                   | Some (w, r) => negb (no_verbs (route_tpl w r))
                                                                   | None => false end
                                                        | _ => false end) (combine iobs tables));
              verdict "kf:K-C03-3" (existsb (fun w => let p := fixed_prefix (ws_path (s_root w)) in
                                                      str_eqb p (L "/") || str_eqb p []) (t_services t)
                                    && Nat.ltb 1 (List.length (t_services t)));
              verdict "in_scope" scope;
              verdict "hypotheses_of_C03_order" hyp_order;
              verdict "permutations_built" (Nat.ltb 1 (List.length iobs)) ] ].

(* ---- domain "disp" (C06 C07 C10 C19) ----
   case: (oracles cfg history mode); impl: (seq fresh conc ledger), each a list of
   per-request observations (panic status headers body ok log recovered) *)
Definition sx_action (x : sexp) : action :=
  let a := sx_str (sx_nth 1 x) in
  let b := sx_str (sx_nth 2 x) in
  match sx_int (sx_nth 0 x) with
  | 0 => AHeader a b
  | 1 => AStatus (fold_left (fun acc c => acc * 10 + Z.of_N (N_of_ascii c) - 48) a 0)
  | 2 => AWrite a
  | 3 => AAttr a b
  | 4 => ASee a
  | 6 => ADelHeader a
  | 7 => APretty (str_eqb a (L "1"))
  | 8 => AEntity a b
  | _ => APanic a
  end%Z.
Definition sx_fscript (x : sexp) : fscript :=
  {| f_id := sx_str (sx_nth 0 x); f_pre := map sx_action (sx_list (sx_nth 1 x));
     f_pass := sx_bool (sx_nth 2 x); f_post := map sx_action (sx_list (sx_nth 3 x));
     f_fresh := sx_bool (sx_nth 4 x); f_mw := sx_nat (sx_nth 5 x); f_wrap := sx_bool (sx_nth 6 x) |}.
Definition sx_fscripts (x : sexp) : list fscript := map sx_fscript (sx_list x).
Definition sx_dcfg (x : sexp) : dcfg :=
  {| d_table := sx_table (sx_nth 0 x);
     d_cfilters := sx_fscripts (sx_nth 1 x);
     d_sfilters := map (fun y => (ws_path (sx_str (sx_nth 0 y)), sx_fscripts (sx_nth 1 y))) (sx_list (sx_nth 2 x));
     d_rfilters := map (fun y => (sx_int (sx_nth 0 y), sx_fscripts (sx_nth 1 y))) (sx_list (sx_nth 3 x));
     d_handlers := map (fun y => (sx_int (sx_nth 0 y), map sx_action (sx_list (sx_nth 1 y)))) (sx_list (sx_nth 4 x));
     d_encoding := sx_bool (sx_nth 5 x);
     d_recover := sx_bool (sx_nth 6 x);
     d_recover_script := map sx_action (sx_list (sx_nth 7 x));
     d_condpanic := map sx_int (sx_list (sx_nth 10 x));
     d_plain := map (fun y => (sx_str (sx_nth 0 y), (sx_bool (sx_nth 1 y), map sx_action (sx_list (sx_nth 2 y))))) (sx_list (sx_nth 11 x)) |}.

Definition res_obs (r : res) : sexp :=
  let s := state_of r in
  let '(body, ok) := match st_comp s with
                     | Some (_, chunks, closed) => (concat (st_raw s) ++ concat chunks, closed)
                     | None => (concat (st_raw s), true)
                     end in
  Lst [ match r with Panicked m _ => Lst [A m] | Done _ => Lst [] end;
        I (match st_status s with Some n => n | None => 200%Z end);
        canon_headers (st_hdr s);
        A body; of_bool ok; of_strs (st_log s); of_nat (st_recovered s) ].

Definition serve_hist_item (O : oracles) (cfg : dcfg) (h : sexp) : res :=
  let en := if Z.eqb (sx_int (sx_nth 0 h)) 0 then EDispatch else EServeHTTP in
  let req := sx_request (sx_nth 1 h) in
  let preset := sx_str (sx_nth 2 h) in
  serve O cfg en req (st0 (match preset with [] => [] | _ => [(H_ContentEncoding, preset)] end)).

Definition run_disp (c impl : sexp) : sexp :=
  let O := sx_oracles (sx_nth 0 c) in
  let cfg := sx_dcfg (sx_nth 1 c) in
  let hist := sx_list (sx_nth 2 c) in
  let mode := sx_int (sx_nth 3 c) in
  let results := map (serve_hist_item O cfg) hist in
  let obs := map res_obs results in
  let acq := fold_left (fun a r => a + st_acq (state_of r)) results 0 in
  let rel := fold_left (fun a r => a + st_rel (state_of r)) results 0 in
  let k := if Z.eqb mode 0 then 2 else 3 in
  let m_obs := Lst [Lst obs; Lst obs; Lst (if Z.eqb mode 0 then [] else obs);
                    Lst [of_nat (k * acq); of_nat (k * rel); I 0; I 0; I 0]; I 1] in
  (* spec on the implementation *)
  let i_seq := sx_list (sx_nth 0 impl) in
  let i_fresh := sx_list (sx_nth 1 impl) in
  let i_conc := sx_list (sx_nth 2 impl) in
  let led := sx_nth 3 impl in
  let per := combine (combine hist results) i_seq in
  let no_panic_scripts := negb (cfg_has_panic cfg) in
  let v_c06 := forallb (fun x =>
        let h := fst (fst x) in let io := snd x in
        let req := sx_request (sx_nth 1 h) in
        implb no_panic_scripts
              (sexp_eqb (of_strs (map strip_event (filter structural_event (sx_strs (sx_nth 5 io)))))
                        (of_strs (match assoc (rq_path req) (d_plain cfg), Z.eqb (sx_int (sx_nth 0 h)) 1 with
                                  | Some (wf, _), true => if wf then chain_events (d_cfilters cfg) [] else []
                                  | _, _ => expected_events O cfg req
                                  end)))) per in
  let v_c06_attrs := forallb (fun x =>
        let h := fst (fst x) in let io := snd x in
        let req := sx_request (sx_nth 1 h) in
        implb (no_panic_scripts && negb (cfg_has_fresh cfg) &&
               negb (match assoc (rq_path req) (d_plain cfg) with Some _ => Z.eqb (sx_int (sx_nth 0 h)) 1 | None => false end))
              (sexp_eqb (of_strs (filter (fun e => has_prefix e (L "see:")) (sx_strs (sx_nth 5 io))))
                        (of_strs (expected_sees O cfg req)))) per in
  let labels_in_scope := negb (cfg_drops_ce cfg) in
  let v_c07 := implb labels_in_scope (forallb (fun x =>
        let h := fst (fst x) in let io := snd x in
        encoding_ok O cfg (Z.eqb (sx_int (sx_nth 0 h)) 1) (sx_request (sx_nth 1 h)) (sx_str (sx_nth 2 h))
                    (impl_hvalues H_ContentEncoding (sx_nth 2 io)) (sx_bool (sx_nth 4 io))) per) in
  let v_c07_label := implb labels_in_scope (forallb (fun x =>
        let h := fst (fst x) in let io := snd x in
        encoding_labelled (sx_request (sx_nth 1 h)) (sx_str (sx_nth 2 h))
                          (impl_hvalues H_ContentEncoding (sx_nth 2 io)) (sx_bool (sx_nth 4 io))) per) in
  (* "... otherwise the body is exactly the bytes written": the body the client decodes is the concatenation of
     what the scripts of this configuration wrote for this request (computed by the model), byte for byte *)
  let v_c07_body := forallb (fun x => sexp_eqb (sx_nth 3 (res_obs (snd (fst x)))) (sx_nth 3 (snd x))) per in
  let v_c07_conc := implb labels_in_scope (forallb (fun x =>
        let h := fst x in let io := snd x in
        encoding_labelled (sx_request (sx_nth 1 h)) (sx_str (sx_nth 2 h))
                          (impl_hvalues H_ContentEncoding (sx_nth 2 io)) (sx_bool (sx_nth 4 io))) (combine hist i_conc)) in
  (* plain handlers (Handle / HandleWithFilter) have no recovery by construction: outside C10's scope *)
  let is_plain (h : sexp) := match assoc (rq_path (sx_request (sx_nth 1 h))) (d_plain cfg) with
                             | Some _ => Z.eqb (sx_int (sx_nth 0 h)) 1 | None => false end in
  let v_c10_noescape := forallb (fun x => let h := fst (fst x) in let io := snd x in
                                   implb (d_recover cfg && negb (is_plain h)) (Nat.eqb (List.length (sx_list (sx_nth 0 io))) 0)) per in
  let v_c10_once := forallb (fun io => implb (d_recover cfg) (Z.leb (sx_int (sx_nth 6 io)) 1)) i_seq in
  (* ... and exactly once per recovered panic, whether or not output had been written: as often as the model says *)
  let v_c10_told := forallb (fun x => sexp_eqb (sx_nth 6 (res_obs (snd (fst x)))) (sx_nth 6 (snd x))) per in
  (* ... and what the client sees of a recovered panic is the configured recover handler's doing: status and decoded
     body as the model computes them from the handler's script *)
  let v_c10_answer := forallb (fun x =>
        let mr := res_obs (snd (fst x)) in let io := snd x in
        implb (negb (Z.eqb (sx_int (sx_nth 6 mr)) 0))
              (sexp_eqb (sx_nth 1 mr) (sx_nth 1 io) && sexp_eqb (sx_nth 3 mr) (sx_nth 3 io))) per in
  let v_c10_ledger := Z.eqb (sx_int (sx_nth 0 led)) (sx_int (sx_nth 1 led))
                      && Z.eqb (sx_int (sx_nth 2 led)) 0 && Z.eqb (sx_int (sx_nth 3 led)) 0
                      && Z.eqb (sx_int (sx_nth 4 led)) 0 in
  let v_c10_decodes := forallb (fun io => sx_bool (sx_nth 4 io)) i_seq in
  (* C01 on this domain: every route function that ran (H:<id>) saw itself as the selected route
     (saw:<path> ...) and its declaration admits the request it ran for — also inside concurrent batches *)
  let tbl := d_table cfg in
  let all_routes := flat_map (fun w => map (fun r => (w, r)) (s_routes w)) (t_services tbl) in
  let c01_events (req : request) (evs : list str) :=
    (fix go (l : list str) : bool :=
       match l with
       | [] => true
       | e1 :: l' =>
           (if has_prefix e1 (L "H:") then
              match l' with
              | e2 :: _ =>
                  existsb (fun wr => str_eqb e1 (L "H:" ++ itoa (r_id (snd wr)))
                                     && (has_prefix e2 (L "saw:" ++ route_path (fst wr) (snd wr) ++ L " ")
                                         || cfg_has_fresh cfg)   (* a filter passing on a NEW Request drops the selection *)
                                     && implb (wf_route_for tbl (fst wr) (snd wr)) (admits_for O tbl (fst wr) (snd wr) req))
                          all_routes
              | [] => false
              end
            else true) && go l'
       end) evs in
  let v_c01_disp := forallb (fun x => c01_events (sx_request (sx_nth 1 (fst x))) (sx_strs (sx_nth 5 (snd x))))
                            (combine hist i_seq ++ combine hist i_conc) in
  (* what the route function is handed: its "saw:" event names the selected route's path and the parameter map; it must
     be the model's, request by request - the path parameters bound from the URL, behind whatever filters and adapted
     middleware the chain contains (a filter passing on a NEW Request wrapper drops them, in the model too) *)
  let saws (o : sexp) := filter (fun e => has_prefix e (L "saw:")) (sx_strs (sx_nth 5 o)) in
  let v_saw := forallb (fun mi => sexp_eqb (of_strs (saws (fst mi))) (of_strs (saws (snd mi)))) (combine obs i_seq) in
  let same l1 l2 := Nat.eqb (List.length l1) (List.length l2)
                    && forallb (fun p => sexp_eqb (fst p) (snd p)) (combine l1 l2) in
  let v_c19_hist := same i_seq i_fresh in
  let v_c19_conc := match i_conc with [] => true | _ => same i_conc i_fresh end in
  (* K-C07-1: ServeHTTP, container encoding on, the selected route switches it off *)
  let kf7 := d_encoding cfg &&
             existsb (fun h => Z.eqb (sx_int (sx_nth 0 h)) 1 &&
                               match route_request O (d_table cfg) (sx_request (sx_nth 1 h)) with
                               | RInvoke _ r _ => match r_enc r with Some false => true | _ => false end
                               | _ => false
                               end) hist in
  let cls := (if existsb (fun r => match r with Panicked _ _ => true | _ => false end) results then "panic-escaped"
              else if existsb (fun r => Nat.ltb 0 (st_recovered (state_of r))) results then "recovered"
              else if existsb (fun r => match st_comp (state_of r) with Some _ => true | None => false end) results then "encoded"
              else if existsb (fun r => negb (Nat.eqb (List.length (st_log (state_of r))) 0)) results then "plain"
              else "empty")%string in
  Lst [ m_obs;
        Lst [ verdict "c01_route_function_sees_itself_and_admits" v_c01_disp;
              verdict "c04_route_function_is_handed_the_bound_parameters" v_saw;
              verdict "c06_handler_receives_what_the_filters_passed_on" v_saw;
              verdict "c06_filter_order" v_c06;
              verdict "c06_attributes_reach_later_stages" v_c06_attrs;
              verdict "c06_concurrent_same_as_alone" v_c19_conc;
              (* the response a filter passes on is the one later stages write to: with wrapping filters in the
                 configuration the decoded body is what the model computes through the wrappers *)
              verdict "c06_later_stages_write_through_the_passed_on_response" v_c07_body;
              verdict "c07_encoding_enabled_and_wanted" v_c07;
              verdict "c07_labelled_and_decodes" v_c07_label;
              verdict "c07_body_is_exactly_what_was_written" v_c07_body;
              verdict "c07_concurrent_responses_decode" v_c07_conc;
              verdict "c10_panic_does_not_escape" v_c10_noescape;
              verdict "c10_recover_handler_at_most_once" v_c10_once;
              verdict "c10_recover_handler_told_of_every_panic" v_c10_told;
              verdict "c10_client_sees_the_recover_handlers_answer" v_c10_answer;
              verdict "c10_compressors_released_once" v_c10_ledger;
              verdict "c13_every_acquired_compressor_released_once" v_c10_ledger;
              verdict "c10_body_complete" v_c10_decodes;
              verdict "c10_container_usable_afterwards" (sx_bool (sx_nth 4 impl));
              verdict "c12_registration_not_blocked_after_any_history" (sx_bool (sx_nth 4 impl));
              verdict "c10_following_requests_served_as_fresh" v_c19_hist;
              verdict "c19_history_same_as_fresh" v_c19_hist;
              verdict "c19_concurrent_same_as_fresh" v_c19_conc ];
        A (L cls);
        Lst [ verdict "kf:K-C07-1" kf7; verdict "no_panic_scripts" no_panic_scripts;
              verdict "concurrent" (negb (Z.eqb mode 0));
              verdict "history_longer_than_one" (Nat.ltb 1 (List.length hist));
              verdict "has_plain_handler" (negb (Nat.eqb (List.length (d_plain cfg)) 0));
              verdict "script_drops_content_encoding" (cfg_drops_ce cfg);
              verdict "filter_passes_on_a_wrapped_response"
                      (existsb f_wrap (d_cfilters cfg) || existsb (fun x => existsb f_wrap (snd x)) (d_sfilters cfg)
                       || existsb (fun x => existsb f_wrap (snd x)) (d_rfilters cfg));
              verdict "entity_written_by_script"
                      (existsb (fun x => existsb (fun a => match a with AEntity _ _ => true | _ => false end) (snd x)) (d_handlers cfg));
              verdict "request_with_cancelled_context" (existsb (fun h => str_eqb (hget (sx_request (sx_nth 1 h)) (L "X-Verif-Cancelled")) (L "1")) hist);
              verdict "client_gone" (existsb (fun h => str_eqb (hget (sx_request (sx_nth 1 h)) (L "X-Verif-Gone")) (L "1")) hist);
              verdict "trace_logging_on" (sx_bool (sx_nth 12 (sx_nth 1 c))) ] ].

(* ---- domain "resp" (C15) ----
   case: (oracles script comp pretty via ops); impl: (((err fails-after) ...) StatusCode ContentLength seen accepted panicked) *)
Fixpoint resp_trace (r : resp) (ops : list rop) : list sexp * resp :=
  match ops with
  | [] => ([], r)
  | o :: rest =>
      let '(r1, e) := resp_step r o in
      let '(tr, r2) := resp_trace r1 rest in
      (Lst [of_bool e; of_nat (u_fails (p_u r1))] :: tr, r2)
  end.

Definition run_resp (c impl : sexp) : sexp :=
  let script := sx_script (sx_nth 1 c) in
  let comp := sx_bool (sx_nth 2 c) in
  let pretty := sx_bool (sx_nth 3 c) in
  let ops := map sx_rop (sx_list (sx_nth 5 c)) in
  let '(tr, r) := resp_trace (resp_init script comp pretty) ops in
  let seen := match u_status (p_u r) with Some n => n | None => 200%Z end in
  let accepted := if comp then p_cbytes r else u_bytes (p_u r) in
  let m_obs := Lst [Lst tr; I (status_code r); I (content_length r); I seen; of_N accepted; I 0] in
  let wf := wf_ops false pretty ops in
  (* the property's clauses on the implementation's own numbers *)
  let i_tr := sx_list (sx_nth 0 impl) in
  let v_status := Z.eqb (sx_int (sx_nth 1 impl)) (sx_int (sx_nth 3 impl)) in
  let v_len := Z.eqb (sx_int (sx_nth 2 impl)) (sx_int (sx_nth 4 impl)) in
  let v_err := (fix go (prev : Z) (l : list sexp) : bool :=
                  match l with
                  | [] => true
                  | x :: l' => let f := sx_int (sx_nth 1 x) in
                               implb (Z.ltb prev f) (sx_bool (sx_nth 0 x)) && go f l'
                  end) 0%Z i_tr in
  let failing := negb (Nat.eqb (u_fails (p_u r)) 0) in
  let cls := (if negb wf then "not-wf" else if failing then "writer-fails" else if comp then "encoded"
              else match ops with [] => "empty" | _ => "plain" end)%string in
  Lst [ m_obs;
        Lst [ verdict "c15_status_matches" (implb wf v_status);
              verdict "c15_length_matches" (implb wf v_len);
              verdict "c15_error_returned" (implb (negb comp) v_err);
              verdict "c15_no_panic" (Z.eqb (sx_int (sx_nth 5 impl)) 0) ];
        A (L cls);
        Lst [ verdict "wf_history" wf; verdict "writer_fails" failing; verdict "encoded" comp;
              verdict "through_container" (Z.eqb (sx_int (sx_nth 4 c)) 1);
              verdict "plain_handler_with_filter" (Z.eqb (sx_int (sx_nth 4 c)) 2);
              verdict "behind_a_middleware_filter" (Z.eqb (sx_int (sx_nth 4 c)) 3) ] ].

(* ---- domain "pool" (C13) ----
   case: (oracles provider cap mode ops clients rounds); impl: (trace blocked handed-out-while-held released-unknown wrong-bodies) *)
Definition tri_get {A} (t : A * A * A) (k : nat) : A :=
  match k with 0 => fst (fst t) | 1 => snd (fst t) | _ => snd t end.
Definition tri_set {A} (t : A * A * A) (k : nat) (v : A) : A * A * A :=
  match k with 0 => (v, snd (fst t), snd t) | 1 => (fst (fst t), v, snd t) | _ => (fst t, v) end.

(* a sequential history on the bounded cache, driven through Pool.client_step: for every
   acquire the index of the earliest acquire that returned the same object, or -1 *)
Fixpoint pool_hist (cap : nat) (chans : list nat * list nat * list nat) (nexts : nat * nat * nat)
         (acquired : list (nat * nat)) (ops : list sexp) : list Z :=
  match ops with
  | [] => []
  | op :: rest =>
      if Z.eqb (sx_int (sx_nth 0 op)) 0 then
        let k := sx_nat (sx_nth 1 op) in
        match client_step cap (tri_get chans k) (tri_get nexts k) {| c_held := None; c_prog := [PTryRecvElseNew] |} with
        | Some (ch, nx, c) =>
            let x := match c_held c with Some x => x | None => 0 end in
            let first := (fix go (i : Z) (l : list (nat * nat)) : Z :=
                            match l with
                            | [] => (-1)%Z
                            | (k', x') :: l' => if Nat.eqb k k' && Nat.eqb x x' then i else go (i + 1)%Z l'
                            end) 0%Z acquired in
            first :: pool_hist cap (tri_set chans k ch) (tri_set nexts k nx) (acquired ++ [(k, x)]) rest
        | None => []
        end
      else
        let '(k, x) := nth (sx_nat (sx_nth 1 op)) acquired (0, 0) in
        match client_step cap (tri_get chans k) (tri_get nexts k) {| c_held := Some x; c_prog := [PTrySend] |} with
        | Some (ch, nx, _) => pool_hist cap (tri_set chans k ch) nexts acquired rest
        | None => []
        end
  end.

Definition run_pool (c impl : sexp) : sexp :=
  let provider := sx_int (sx_nth 1 c) in
  let cap := sx_nat (sx_nth 2 c) in
  let mode := sx_int (sx_nth 3 c) in
  let ops := sx_list (sx_nth 4 c) in
  let trace := if Z.eqb mode 0 && Z.eqb provider 1
               then pool_hist cap (seq 0 cap, seq 0 cap, seq 0 cap) (cap, cap, cap) [] ops else [] in
  let cls := (if Z.eqb mode 0 then "history" else if Z.eqb mode 1 then "direct-concurrent" else "container-concurrent")%string in
  Lst [ Lst [Lst (map I trace); I 0; I 0; I 0; I 0];
        Lst [ verdict "c13_never_blocks" (Z.eqb (sx_int (sx_nth 1 impl)) 0);
              verdict "c13_never_handed_out_while_held" (Z.eqb (sx_int (sx_nth 2 impl)) 0);
              verdict "c13_released_exactly_once" (Z.eqb (sx_int (sx_nth 3 impl)) 0);
              verdict "c13_own_payload" (Z.eqb (sx_int (sx_nth 4 impl)) 0) ];
        A (L cls);
        Lst [ verdict "bounded_cache" (Z.eqb provider 1); verdict "capacity_0_or_1" (Nat.leb cap 1);
              verdict "concurrent" (negb (Z.eqb mode 0)) ] ].

(* ---- domain "mut" (C12): impl = (wrong-untouched wrong-changing panics blocked) ---- *)
Definition run_mut (c impl : sexp) : sexp :=
  Lst [ Lst [I 0; I 0; I 0; I 0];
        Lst [ verdict "c12_untouched_answered_as_always" (Z.eqb (sx_int (sx_nth 0 impl)) 0);
              verdict "c12_changing_answered_by_an_existing_state" (Z.eqb (sx_int (sx_nth 1 impl)) 0);
              verdict "c12_no_panic" (Z.eqb (sx_int (sx_nth 2 impl)) 0);
              verdict "c12_no_deadlock" (Z.eqb (sx_int (sx_nth 3 impl)) 0) ];
        A (L (if Z.eqb (sx_int (sx_nth 1 c)) 0 then "curly" else "jsr311")%string);
        Lst [ verdict "via_servehttp" (negb (Z.eqb (sx_int (sx_nth 2 c)) 0)) ] ].

(* ---- domain "reg" (C11) ----
   case: (oracles router ops probes); impl: (failed-op history-answers fresh-answers fresh-failed) *)
Definition reg_answer_obs (a : reg_answer) : sexp :=
  match a with
  | GRedirect loc => Lst [I 301; I 0; A loc]
  | GPlain id => Lst [I 200; I id; A []]
  | GMux404 => Lst [I 404; I 0; A []]
  | GRouted (RInvoke _ r _) => Lst [I 200; I (r_id r); A []]
  | GRouted (RError E404) => Lst [I 404; I 0; A []]
  | GRouted (RError (E405 _)) => Lst [I 405; I 0; A []]
  | GRouted (RError E415) => Lst [I 415; I 0; A []]
  | GRouted (RError E406) => Lst [I 406; I 0; A []]
  | GRouted RPanic => Lst [I (-1); I 0; A []]
  end%Z.

(* the premises of Props.C11 for a history: the roots it adds and the patterns it hands to Handle form a
   compatible universe, no root is added while registered, no plain pattern twice (RegistrySpec) *)
Definition reg_premises (ops : list regop) : bool :=
  let roots := flat_map (fun o => match o with RAdd r _ => [norm_root r] | _ => [] end) ops in
  let plainU := flat_map (fun o => match o with RHandle p _ => [p] | _ => [] end) ops in
  forallb (plain_compatible roots) plainU && reg_ops_ok roots plainU cs_init ops.

(* a history in which the caller recovered from refused Handle calls and went on: an operation (5 pattern id) is a
   Handle the implementation refused (Registry.cs_run_skip; RegistryProofs.run_skip_is_run_of_accepted: the state is
   that of the history without these operations, to which theorem C11 applies). *)
Definition reg_run_skip (s : cstate) (ops : list sexp) (k anom : nat) : cstate * option (nat * failure) * nat :=
  (* (6 ...) is a request served in the middle of the history: no registration *)
  cs_run_skip s (map (fun x => (Z.eqb (sx_int (sx_nth 0 x)) 5, sx_rop_reg x))
                     (filter (fun x => negb (Z.eqb (sx_int (sx_nth 0 x)) 6)) ops)) k anom.

Definition run_reg (c impl : sexp) : sexp :=
  let O := sx_oracles (sx_nth 0 c) in
  let rt := if Z.eqb (sx_int (sx_nth 1 c)) 0 then Curly else Jsr311 in
  let ops := map sx_rop_reg (filter (fun x => negb (Z.eqb (sx_int (sx_nth 0 x)) 6)) (sx_list (sx_nth 2 c))) in
  let probes := sx_list (sx_nth 3 c) in
  let '(s, fail, anomalies) := reg_run_skip cs_init (sx_list (sx_nth 2 c)) 0 0 in
  let '(sf, ffail) := cs_fresh s in
  let ask st p :=
      let req := {| rq_method := sx_str (sx_nth 1 p); rq_path := sx_str (sx_nth 2 p); rq_headers := []; rq_clen := 0 |} in
      let entry := sx_int (sx_nth 0 p) in
      if Z.leb 2 entry then
        (* a preflight: the container's CORS filter answers it itself (200, nothing runs) wherever dispatch is reached *)
        match (if Z.eqb entry 2 then serve_dispatch O rt st req else serve_http O rt st req) with
        | GRouted _ => Lst [I 200; I 0; A []]
        | GPlain id => if Z.odd id then Lst [I 200; I 0; A []]    (* HandleWithFilter: the container filters run first *)
                       else reg_answer_obs (GPlain id)
        | other => reg_answer_obs other
        end
      else
      reg_answer_obs (if Z.eqb entry 0 then serve_dispatch O rt st req else serve_http O rt st req) in
  let m_obs := Lst [ I (match fail with Some (k, _) => Z.of_nat k | None => (-1)%Z end);
                     Lst (map (ask s) probes); Lst (map (ask sf) probes);
                     I (match ffail with Some _ => 1 | None => 0 end)%Z; I 1; of_nat anomalies ] in
  let i_failed := sx_int (sx_nth 0 impl) in
  let same := sexp_eqb (sx_nth 1 impl) (sx_nth 2 impl) in
  let cls := (if negb (Z.eqb i_failed (-1)) then "operation-failed"
              else if existsb (fun o => match o with RRemove _ => true | _ => false end) ops then "with-remove"
              else "adds-only")%string in
  Lst [ m_obs;
        Lst [ verdict "c11_add_never_panics" (Z.eqb i_failed (-1) && Z.eqb (sx_int (sx_nth 3 impl)) 0);
              verdict "c11_same_as_fresh" same;
              verdict "c11_refused_remove_changes_nothing" (sx_bool (sx_nth 4 impl)) ];
        A (L cls);
        Lst [ verdict "premises_of_C11" (reg_premises ops);
              verdict "has_plain_handler" (existsb (fun o => match o with RHandle _ _ => true | _ => false end) ops);
              verdict "has_route_change" (existsb (fun o => match o with RRoute _ _ | RRemoveRoute _ _ _ => true | _ => false end) ops);
              verdict "has_refused_handle" (existsb (fun x => Z.eqb (sx_int (sx_nth 0 x)) 5) (sx_list (sx_nth 2 c)));
              verdict "preflight_in_the_middle" (existsb (fun x => Z.eqb (sx_int (sx_nth 0 x)) 6) (sx_list (sx_nth 2 c))) ] ].

(* ---- domain "ent" (C16, C13) ----
   case: (oracles provider cap dflt mode requests); request = (ct ce value codec pretty enc broken (body gunzip inflate dec))
   impl: (seq fresh conc ledger), per request (class rendering) *)
Definition ent_registry : registry :=
  [(L "application/json", CJson); (L "application/xml", CXml); (L "application/vnd.x+json", CJson)].

Definition sx_opt_str (x : sexp) : option str := match sx_list x with [] => None | y :: _ => Some (sx_str y) end.

(* the registry after the application re-registered the two standard types with each other's accessors *)
Definition ent_registry_swapped : registry :=
  [(L "application/json", CXml); (L "application/xml", CJson); (L "application/vnd.x+json", CJson)].

Definition ent_one (reg : registry) (dflt : str) (rq : sexp) : sexp * bool :=
  let ct := sx_str (sx_nth 0 rq) in
  let ce := sx_str (sx_nth 1 rq) in
  let orc := sx_nth 7 rq in
  let body := sx_str (sx_nth 0 orc) in
  let gun := sx_opt_str (sx_nth 1 orc) in
  let inf := sx_opt_str (sx_nth 2 orc) in
  let rows := sx_list (sx_nth 3 orc) in
  let decode (c : codec) (b : str) : option str :=
      let tag := match c with CXml => 1%Z | _ => 0%Z end in
      match find (fun row => Z.eqb (sx_int (sx_nth 0 row)) tag && str_eqb (sx_str (sx_nth 1 row)) b) rows with
      | Some row => sx_opt_str (sx_nth 2 row)
      | None => None
      end in
  let gunzip (b : str) := if str_eqb b body then gun else None in
  let inflate (b : str) := if str_eqb b body then inf else None in
  let inflate_open (b : str) := sx_bool (sx_nth 4 orc) in
  let pick (l : list codec) := match l with c :: _ => Some c | [] => None end in
  let '(r, acquired) := read_entity str decode gunzip inflate inflate_open reg dflt ct ce body
                                    {| gz_src := []; gz_residue := []; gz_err := false |} pick in
  (match r with
   | ROk v => Lst [I 1; A v]
   | RErr st => Lst [I st; A []]
   | RPanicked => Lst [I (-1); A []]
   end, acquired).

Definition run_ent (c impl : sexp) : sexp :=
  let dflt := sx_str (sx_nth 3 c) in
  let mode := sx_int (sx_nth 4 c) in
  let reqs := sx_list (sx_nth 5 c) in
  (* 7th element, when present and true: before the history the application registered the XML accessor for
     application/json and the JSON accessor for application/xml (after every spelling of the history had been looked up
     once under the standard registry); every request of the case is then read by the accessor registered NOW *)
  let swapped := sx_bool (sx_nth 6 c) in
  let res := map (ent_one (if swapped then ent_registry_swapped else ent_registry) dflt) reqs in
  let obs := map fst res in
  let conc := if Z.eqb mode 0 then [] else obs ++ obs ++ obs in
  let i_seq := sx_list (sx_nth 0 impl) in
  let i_fresh := sx_list (sx_nth 1 impl) in
  let i_conc := sx_list (sx_nth 2 impl) in
  let led := sx_nth 3 impl in
  (* the round trip clause, on what the harness wrote: the request declares what it is, nothing is broken *)
  let faithful rq :=
      let codec := sx_int (sx_nth 3 rq) in
      let enc := sx_int (sx_nth 5 rq) in
      negb swapped && Z.eqb (sx_int (sx_nth 6 rq)) 0 &&
      str_eqb (sx_str (sx_nth 1 rq)) (match enc with 0 => [] | 1 => L "gzip" | 3 => L "gzip" | _ => L "deflate" end)%Z &&
      (let ct := sx_str (sx_nth 0 rq) in
       if Z.eqb codec 0 then has_prefix ct (L "application/json") || has_prefix ct (L "application/vnd.x+json")
       else has_prefix ct (L "application/xml")) in
  let expect rq :=
      (* what the stdlib codec makes of the bytes the writer produced: the generated value itself *)
      let orc := sx_nth 7 rq in
      let rows := sx_list (sx_nth 3 orc) in
      rows in
  (* ... then reading succeeds and gives the value that was written (its rendering before writing is the sixth field
     of the request's oracle) *)
  let v_round := forallb (fun p => let rq := fst p in let io := snd p in
                            implb (faithful rq)
                                  (Z.eqb (sx_int (sx_nth 0 io)) 1
                                   && str_eqb (sx_str (sx_nth 1 io)) (sx_str (sx_nth 5 (sx_nth 7 rq))))) (combine reqs i_seq) in
  (* what the standard decoders refuse (the model's answer is an error) is an error for the reader too *)
  let v_broken := forallb (fun p => implb (negb (Z.eqb (sx_int (sx_nth 0 (fst p))) 1))
                                          (negb (Z.eqb (sx_int (sx_nth 0 (snd p))) 1))) (combine obs i_seq) in
  let v_noblock := forallb (fun io => negb (Z.eqb (sx_int (sx_nth 0 io)) (-2))) (i_seq ++ i_fresh ++ i_conc) in
  let v_nopanic := forallb (fun io => negb (Z.eqb (sx_int (sx_nth 0 io)) (-1))) (i_seq ++ i_fresh ++ i_conc) in
  let same l1 l2 := Nat.eqb (List.length l1) (List.length l2) && forallb (fun p => sexp_eqb (fst p) (snd p)) (combine l1 l2) in
  let v_hist := same i_seq i_fresh in
  let v_conc := match i_conc with [] => true | _ => same i_conc (i_fresh ++ i_fresh ++ i_fresh) end in
  let v_led := Z.eqb (sx_int (sx_nth 0 led)) (sx_int (sx_nth 1 led)) && Z.eqb (sx_int (sx_nth 4 led)) 0 in
  let cls := (if existsb (fun rq => negb (Z.eqb (sx_int (sx_nth 6 rq)) 0)) reqs then "some-broken"
              else if existsb (fun rq => negb (Z.eqb (sx_int (sx_nth 5 rq)) 0)) reqs then "compressed" else "plain")%string in
  Lst [ Lst [Lst obs; Lst obs; Lst conc; Lst [I 0; I 0; I 0; I 0; I 0]];
        Lst [ verdict "c16_round_trip" v_round;
              verdict "c16_broken_is_an_error" v_broken;
              verdict "c16_never_panics" v_nopanic;
              verdict "c16_history_independent" v_hist;
              verdict "c16_concurrent_same" v_conc;
              verdict "c13_readers_released_once" (v_led && Z.eqb (sx_int (sx_nth 3 led)) 0);
              verdict "c13_readers_never_shared" (Z.eqb (sx_int (sx_nth 2 led)) 0);
              (* exclusive use, as a client sees it: bodies decoded while other requests are in flight come out as they
                 do alone *)
              verdict "c13_concurrent_bodies_decoded_as_alone" v_conc;
              (* every request comes back (the harness gives a request 20 s; class -2 = it never did) *)
              verdict "c13_decoding_a_body_never_blocks" v_noblock;
              verdict "c16_every_request_is_answered" v_noblock ];
        A (L cls);
        Lst [ verdict "all_faithful" (forallb faithful reqs); verdict "concurrent" (negb (Z.eqb mode 0));
              verdict "history_longer_than_one" (Nat.ltb 1 (List.length reqs)) ] ].

(* ---- domain "neg" (C05) ----
   case: (qrows registered produces dflt accept trace); impl: (panicked statuses content-types decodes invoked) *)
Definition run_neg (c impl : sexp) : sexp :=
  let rows := map (fun r => (sx_str (sx_nth 0 r), sx_int (sx_nth 1 r))) (sx_list (sx_nth 0 c)) in
  let qrank (s : str) : option Z := match assoc s rows with Some z => if Z.ltb z 0 then None else Some z | None => None end in
  let reg := sx_strs (sx_nth 1 c) in
  (* the set-up history of the WebService, when the case has one (10th element: (0 list) = ws.Produces, (1 list) = a
     route whose builder declares that list): the route that is asked is the first one added, and what it produces is
     what Builder.ws_build leaves in it *)
  let mk (own : list str) := {| r_id := 0; r_method := []; r_rel := []; r_consumes := []; r_produces := own;
                                r_conds := []; r_noct := []; r_enc := None |} in
  let ops := map (fun o => if Z.eqb (sx_int (sx_nth 0 o)) 0 then BProduces (sx_strs (sx_nth 1 o))
                           else BRoute (mk (sx_strs (sx_nth 1 o)))) (sx_list (sx_nth 9 c)) in
  let produces := match w_routes (ws_build ops) with r :: _ => r_produces r | [] => sx_strs (sx_nth 2 c) end in
  let dflt := sx_str (sx_nth 3 c) in
  (* several Accept header lines (separated by a line feed in the case): Header.Get answers with the first line,
     for the router and for the entity writer alike *)
  let accept_lines := split (ascii_of_nat 10) (sx_str (sx_nth 4 c)) in
  let accept := hd [] accept_lines in
  let dummy := {| r_id := 0; r_method := []; r_rel := []; r_consumes := []; r_produces := produces;
                  r_conds := []; r_noct := []; r_enc := None |} in
  let admitted := matches_accept dummy (match accept with [] => L "*/*" | a => a end) in
  let possible := entity_writer qrank reg produces dflt accept in
  let premise := negb (Nat.eqb (List.length produces) 0) && forallb (fun p => mem p reg) produces in
  let wellformed_q := forallb (fun r => negb (Z.ltb (snd r) 0)) rows in
  (* the implementation's answers *)
  let i_status := map sx_int (sx_list (sx_nth 1 impl)) in
  let i_cts := sx_strs (sx_nth 2 impl) in
  let i_dec := map sx_int (sx_list (sx_nth 3 impl)) in
  let st0 := hd 0%Z i_status in
  let ct0 := hd [] i_cts in
  let written := Z.eqb st0 200 in
  let same := forallb (Z.eqb st0) i_status && forallb (str_eqb ct0) i_cts in
  let m_obs := if negb admitted then Lst [I 406; Lst []]
               else match possible with [] => Lst [I 406; Lst []] | l => Lst [I 200; of_strs (sort_strs l)] end in
  let i_obs := Lst [I st0; match written with true => Lst [A ct0] | false => Lst [] end] in
  let refines := match possible, admitted with
                 | _, false => Z.eqb st0 406
                 | [], true => Z.eqb st0 406
                 | l, true => written && mem ct0 l
                 end in
  let scope := premise && wellformed_q in
  let cls := (if negb admitted then "router-406" else if negb premise then "outside-premise"
              else if negb wellformed_q then "malformed-q" else match accept with [] => "no-accept" | _ => "negotiated" end)%string in
  Lst [ Lst [of_bool refines];
        Lst [ verdict "c05_no_panic" (Z.eqb (sx_int (sx_nth 0 impl)) 0);
              (* for EVERY request, also outside the premise and with unparsable q values (fix F10: no map order is left) *)
              verdict "c05_same_representation_every_time" same;
              verdict "c05_type_is_produced_and_registered" (implb (scope && written) (mem ct0 produces && mem ct0 reg));
              verdict "c05_admitted_never_406" (implb (scope && admitted) written);
              verdict "c05_best_for_accept" (implb (scope && admitted)
                                                   (match possible with [k] => written && str_eqb ct0 k | _ => false end));
              verdict "c05_body_decodes" (implb written (forallb (fun d => Z.eqb d 1) i_dec));
              verdict "c19_same_answers_with_tracing_flipped" (sx_bool (sx_nth 4 impl)) ];
        A (L cls);
        Lst [ verdict "in_premise" scope; verdict "admitted" admitted;
              verdict "several_ranges" (Nat.ltb 1 (List.length (split comma accept)));
              verdict "several_accept_lines" (Nat.ltb 1 (List.length accept_lines));
              verdict "content_type_preset_on_response" (negb (str_eqb (sx_str (sx_nth 6 c)) [])) ] ].

Definition run_case (c impl : sexp) : sexp :=
  let dom := sx_str (sx_nth 0 c) in
  if str_eqb dom (L "cors") then run_cors (sx_nth 1 c) impl
  else if str_eqb dom (L "route") then run_route (sx_nth 1 c) impl
  else if str_eqb dom (L "slash") then run_slash (sx_nth 1 c) impl
  else if str_eqb dom (L "allow") then run_allow (sx_nth 1 c) impl
  else if str_eqb dom (L "twin") then run_twin (sx_nth 1 c) impl
  else if str_eqb dom (L "perm") then run_perm (sx_nth 1 c) impl
  else if str_eqb dom (L "disp") then run_disp (sx_nth 1 c) impl
  else if str_eqb dom (L "resp") then run_resp (sx_nth 1 c) impl
  else if str_eqb dom (L "pool") then run_pool (sx_nth 1 c) impl
  else if str_eqb dom (L "mut") then run_mut (sx_nth 1 c) impl
  else if str_eqb dom (L "reg") then run_reg (sx_nth 1 c) impl
  else if str_eqb dom (L "ent") then run_ent (sx_nth 1 c) impl
  else if str_eqb dom (L "neg") then run_neg (sx_nth 1 c) impl
  else Lst [A (L "unknown-domain")].

(* Curly.v — mirrors curly.go and curly_route.go (with the repairs F5, F6 of
   DESIGN section 7).  Raw-string tests exactly as the code performs them.
   Definitions only. *)
From Model Require Import Str Sexp Http Template Table.

Section WithOracles.
Variable O : oracles.

(* curly.go isTailWildcardToken: "{name:*}" *)
Definition is_tail_wildcard_token (t : str) : bool :=
  has_prefix t [lbrace] &&
  match index_char t colon with
  | Some c => str_eqb (skipn (c + 1) t) (L "*}")
  | None => false
  end.

(* curly.go:108 regularMatchesPathToken -> (matchesToken, matchesRemainder) *)
Definition regular_matches_path_token (rt : str) (c : nat) (qt : str) : bool * bool :=
  let reg := slice rt (c + 1) (List.length rt - 1) in
  if str_eqb reg (L "*") then (true, true) else (o_rx O reg qt, false).

(* curly.go:69-103 the loop of matchesRouteByPathTokens; counters threaded *)
Fixpoint match_tokens (hcv : bool) (rts qts : list str) (pc sc : nat) : option (nat * nat) :=
  match rts with
  | [] => Some (pc, sc)
  | rt0 :: rts' =>
    match qts with
    | [] => None                                    (* reached end of request path *)
    | qt0 :: qts' =>
      let verb := hcv && has_custom_verb rt0 in
      if verb && negb (is_match_custom_verb rt0 qt0) then None
      else
        let sc := if verb then S sc else sc in
        let qt := if verb then remove_custom_verb qt0 else qt0 in
        let rt := if verb then remove_custom_verb rt0 else rt0 in
        if has_prefix rt [lbrace] then
          let pc := S pc in
          match index_char rt colon with
          | Some c =>
              let '(mt, mr) := regular_matches_path_token rt c qt in
              if negb mt then None
              else if mr then Some (pc, sc)         (* break *)
              else match_tokens hcv rts' qts' pc sc
          | None =>
              match index_char rt rbrace with
              | Some e =>
                  if Nat.ltb e (List.length rt - 1)
                     && negb (has_suffix qt (skipn (e + 1) rt))
                  then None                         (* {var}suffix: suffix must be present *)
                  else match_tokens hcv rts' qts' pc sc
              | None => match_tokens hcv rts' qts' pc sc
              end
          end
        else if str_eqb qt rt then match_tokens hcv rts' qts' pc (S sc)
        else None
    end
  end.

(* curly.go:60 matchesRouteByPathTokens *)
Definition matches_route_by_path_tokens (rts qts : list str) (hcv : bool) : option (nat * nat) :=
  if Nat.ltb (List.length rts) (List.length qts)
     && (match rts with [] => true | _ => negb (is_tail_wildcard_token (last rts [])) end)
  then None
  else match_tokens hcv rts qts 0 0.

(* curly.go:146 computeWebserviceScore *)
Fixpoint ws_score_loop (n : nat) (qts toks : list str) (i score : nat) {struct toks} : bool * nat :=
  match toks with
  | [] => (true, score)
  | other :: toks' =>
    match qts with
    | [] => (false, score)   (* unreachable: guarded by the length test *)
    | each :: qts' =>
      match each, other with
      | [], [] => ws_score_loop n qts' toks' (S i) (S score)
      | _, _ =>
        if has_prefix other [lbrace] then
          match each with
          | [] => (false, score)
          | _ =>
            match index_char other colon with
            | Some c =>
                if fst (regular_matches_path_token other c each)
                then ws_score_loop n qts' toks' (S i) (S score)
                else (false, score)
            | None => ws_score_loop n qts' toks' (S i) (S score)
            end
          end
        else if str_eqb each other then ws_score_loop n qts' toks' (S i) (score + (n - i) * 10)
        else (false, score)
      end
    end
  end.

Definition compute_webservice_score (qts toks : list str) : bool * nat :=
  if Nat.ltb (List.length qts) (List.length toks) then (false, 0)
  else ws_score_loop (List.length toks) qts toks 0 0.

(* curly.go:131 detectWebService: first service with the strictly greatest score *)
Fixpoint detect_ws_loop (qts : list str) (wss : list service) (best : option service) (score : Z)
  : option service :=
  match wss with
  | [] => best
  | w :: wss' =>
    let '(m, sc) := compute_webservice_score qts (tokenize (s_root w)) in
    if m && Z.ltb score (Z.of_nat sc) then detect_ws_loop qts wss' (Some w) (Z.of_nat sc)
    else detect_ws_loop qts wss' best score
  end.
Definition detect_web_service (qts : list str) (wss : list service) : option service :=
  detect_ws_loop qts wss None (-1)%Z.

(* curly_route.go: candidates ordered by (staticCount, paramCount, Path) descending;
   sort.Sort on <= 12 elements is a stable insertion sort *)
Record curly_cand := { cc_route : route; cc_param : nat; cc_static : nat; cc_path : str }.

(* key a < key b *)
Definition cc_lt (a b : curly_cand) : bool :=
  if Nat.ltb (cc_static a) (cc_static b) then true
  else if Nat.ltb (cc_static b) (cc_static a) then false
  else if Nat.ltb (cc_param a) (cc_param b) then true
  else if Nat.ltb (cc_param b) (cc_param a) then false
  else str_ltb (cc_path a) (cc_path b).

Section Sort.
Context {X : Type} (lt : X -> X -> bool).
(* insert x after every y with not (y < x): stable, descending *)
Fixpoint insert_desc (x : X) (l : list X) : list X :=
  match l with
  | [] => [x]
  | y :: l' => if lt y x then x :: l else y :: insert_desc x l'
  end.
Definition sort_desc (l : list X) : list X := fold_left (fun acc x => insert_desc x acc) l [].
End Sort.

(* curly.go:47 selectRoutes *)
Definition curly_select_routes (w : service) (qts : list str) : list curly_cand :=
  let cands := flat_map (fun r =>
      match matches_route_by_path_tokens (route_parts w r) qts (route_hcv w r) with
      | Some (pc, sc) => [{| cc_route := r; cc_param := pc; cc_static := sc; cc_path := route_path w r |}]
      | None => []
      end) (s_routes w) in
  sort_desc cc_lt cands.

End WithOracles.

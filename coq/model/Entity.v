(* Entity.v — mirrors Request.ReadEntity (request.go:75) and
   entityReaderWriters.accessorAt (entity_accessors.go:69).  The codecs
   (encoding/json, encoding/xml, compress/gzip, compress/zlib) are section
   variables: what they do to a byte string is an input.  Definitions only. *)
From Model Require Import Str Sexp.

Inductive codec := CJson | CXml | CCustom (id : Z).

(* the registry: key -> codec, a Go map (iteration order unspecified) *)
Definition registry := list (str * codec).

(* accessorAt: the exact key, else ANY registered key contained in the header value: the set of possible answers *)
Definition accessor_at (reg : registry) (mime : str) : list codec :=
  match assoc mime reg with
  | Some c => [c]
  | None => map snd (filter (fun e => contains mime (fst e)) reg)
  end.

Inductive read_result {V : Type} :=
| ROk (v : V)
| RErr (status : Z)          (* 400: no reader for the content type; 0: the codec / decompressor reported an error *)
| RPanicked.

Section WithCodecs.
Variable V : Type.
Variable decode : codec -> str -> option V.      (* EntityReaderWriter.Read on a byte stream *)
Variable gunzip : str -> option str.             (* reading a gzip stream to the end of what the decoder needs *)
Variable inflate : str -> option str.            (* zlib: reading the stream *)
Variable inflate_open : str -> bool.             (* zlib.NewReader accepts the header *)

(* a pooled *gzip.Reader: whatever an earlier request left in it *)
Record gzreader := { gz_src : str; gz_residue : str; gz_err : bool }.
(* gzip.Reader.Reset: every piece of state is replaced *)
Definition gz_reset (r : gzreader) (body : str) : gzreader := {| gz_src := body; gz_residue := []; gz_err := false |}.
Definition gz_read_all (r : gzreader) : option str :=
  if gz_err r then None else match gunzip (gz_src r) with Some b => Some (gz_residue r ++ b) | None => None end.

(* request.go:80-91: the bytes the entity reader will see (None: the decompressor reports an error, at
   NewReader or while reading).  [pooled]: the reader AcquireGzipReader hands out. *)
Definition entity_bytes (ce body : str) (pooled : gzreader) : option str :=
  if str_eqb ce (L "gzip") then gz_read_all (gz_reset pooled body)
  else if str_eqb ce (L "deflate") then (if inflate_open body then inflate body else None)
  else Some body.

(* request.go:94-102: the reader for the Content-Type, else for the default request content type.
   [pick]: which of the possible accessors the map iteration yields *)
Definition entity_lookup (reg : registry) (dflt ct : str) (pick : list codec -> option codec) : option codec :=
  match pick (accessor_at reg ct) with
  | Some c => Some c
  | None => match dflt with [] => None | _ => pick (accessor_at reg dflt) end
  end.

(* [early]: zlib.NewReader failed: that error is returned before the reader lookup *)
Definition entity_result (lookup : option codec) (bytes : option str) (early : bool) : read_result :=
  if early then RErr 0 else
  match lookup with
  | None => RErr 400
  | Some c =>
      match bytes with
      | None => RErr 0
      | Some b => match decode c b with Some v => ROk v | None => RErr 0 end
      end
  end.

(* request.go:75 ReadEntity: the result, and whether a gzip reader was acquired (it is released by the
   deferred call on every path) *)
Definition read_entity (reg : registry) (dflt : str) (ct ce : str) (body : str) (pooled : gzreader)
           (pick : list codec -> option codec) : read_result * bool :=
  (entity_result (entity_lookup reg dflt ct pick) (entity_bytes ce body pooled)
                 (str_eqb ce (L "deflate") && negb (str_eqb ce (L "gzip")) && negb (inflate_open body)),
   str_eqb ce (L "gzip")).

End WithCodecs.
Arguments ROk {V}. Arguments RErr {V}. Arguments RPanicked {V}.

(* Response.v — mirrors the writing methods of response.go (WriteHeader, Write,
   WriteErrorString / WriteError, WriteHeaderAndEntity / WriteEntity /
   WriteServiceError / WriteAsJson / WriteAsXml) and writeJSON / writeXML of
   entity_accessors.go, over an underlying http.ResponseWriter that may fail.
   What encoding/json and encoding/xml produce is an input: the list of chunks
   the encoder hands to Response.Write (None = the marshaller fails).
   Definitions only. *)
From Model Require Import Str Sexp.

(* ---- the underlying writer ----
   [u_script]: for the k-th Write call (a, e): at most a bytes are accepted, and the
   call returns an error iff e or fewer bytes than offered were accepted (io.Writer
   contract).  An exhausted script accepts everything. *)
Record uw := {
  u_status : option Z;        (* status received: the first WriteHeader, or 200 with the first Write *)
  u_bytes : N;                (* body bytes accepted *)
  u_script : list (N * bool);
  u_fails : nat               (* Write calls that returned an error *)
}.

Definition uw_header (u : uw) (n : Z) : uw :=
  match u_status u with
  | Some _ => u
  | None => {| u_status := Some n; u_bytes := u_bytes u; u_script := u_script u; u_fails := u_fails u |}
  end.

(* returns (writer, written, error?) *)
Definition uw_write (u : uw) (b : str) : uw * N * bool :=
  let u := uw_header u 200 in
  let n := N.of_nat (length b) in
  match u_script u with
  | [] => ({| u_status := u_status u; u_bytes := u_bytes u + n; u_script := []; u_fails := u_fails u |}, n, false)
  | (a, e) :: rest =>
      let w := N.min n a in
      let err := e || N.ltb w n in
      ({| u_status := u_status u; u_bytes := u_bytes u + w; u_script := rest;
          u_fails := if err then S (u_fails u) else u_fails u |}, w, err)
  end.

(* ---- the Response ---- *)
Record resp := {
  p_code : Z;                 (* statusCode field (NewResponse: 200) *)
  p_clen : Z;                 (* contentLength field *)
  p_pretty : bool;
  p_comp : bool;              (* a CompressingResponseWriter (open) sits between *)
  p_cbytes : N;               (* bytes accepted by that compressor (pre-coding) *)
  p_u : uw
}.

Definition resp_init (script : list (N * bool)) (comp pretty : bool) : resp :=
  {| p_code := 200; p_clen := 0; p_pretty := pretty; p_comp := comp; p_cbytes := 0;
     p_u := {| u_status := None; u_bytes := 0; u_script := script; u_fails := 0 |} |}.

(* response.go:222 WriteHeader: record, then forward (the compressing writer forwards too) *)
Definition resp_write_header (r : resp) (n : Z) : resp :=
  {| p_code := n; p_clen := p_clen r; p_pretty := p_pretty r; p_comp := p_comp r; p_cbytes := p_cbytes r;
     p_u := uw_header (p_u r) n |}.

(* response.go:238 Write: forward, add what was accepted.  Through an open compressor the
   bytes are accepted by the compressor (what reaches the underlying writer is coded and is
   not modelled beyond "a 200 is committed") *)
Definition resp_write (r : resp) (b : str) : resp * bool :=
  if p_comp r then
    let n := N.of_nat (length b) in
    (* the stream header goes to the underlying writer with the first Write: a 200 is committed *)
    ({| p_code := p_code r; p_clen := p_clen r + Z.of_N n; p_pretty := p_pretty r; p_comp := true;
        p_cbytes := p_cbytes r + n; p_u := uw_header (p_u r) 200 |}, false)
  else
    let '(u, w, err) := uw_write (p_u r) b in
    ({| p_code := p_code r; p_clen := p_clen r + Z.of_N w; p_pretty := p_pretty r; p_comp := false;
        p_cbytes := p_cbytes r; p_u := u |}, err).

(* successive Write calls of an encoder: stop at the first error and return it *)
Fixpoint resp_write_chunks (r : resp) (chunks : list str) : resp * bool :=
  match chunks with
  | [] => (r, false)
  | c :: rest =>
      let '(r1, err) := resp_write r c in
      if err then (r1, true) else resp_write_chunks r1 rest
  end.

Inductive rop :=
| OWrite (b : str)
| OWriteHeader (n : Z)
| OErrorString (n : Z) (reason : str)          (* WriteErrorString, WriteError *)
| OEntity (n : Z) (found vnil : bool) (marshal : option (list str))
    (* WriteHeaderAndEntity / WriteEntity / WriteServiceError / WriteAsJson / WriteAsXml:
       [found]: an entity writer was found; [vnil]: the value is nil *)
| OPretty (b : bool).

(* one call: new state, and whether the call returned an error *)
Definition resp_step (r : resp) (o : rop) : resp * bool :=
  match o with
  | OWrite b => resp_write r b
  | OWriteHeader n => (resp_write_header r n, false)
  | OErrorString n reason => resp_write (resp_write_header r n) reason
  | OEntity n found vnil marshal =>
      if negb found then (resp_write_header r 406, false)                     (* response.go:150 *)
      else if vnil then (resp_write_header r n, false)                         (* entity_accessors.go:104,148 *)
      else match marshal with
           | None => if p_pretty r then (r, true)                              (* MarshalIndent failed: nothing sent *)
                     else (resp_write_header r n, true)                        (* Encode failed after the header *)
           | Some chunks => resp_write_chunks (resp_write_header r n) chunks
           end
  | OPretty b => ({| p_code := p_code r; p_clen := p_clen r; p_pretty := b; p_comp := p_comp r;
                     p_cbytes := p_cbytes r; p_u := p_u r |}, false)
  end.

Fixpoint resp_run (r : resp) (ops : list rop) : resp * list bool :=
  match ops with
  | [] => (r, [])
  | o :: rest =>
      let '(r1, e) := resp_step r o in
      let '(r2, es) := resp_run r1 rest in
      (r2, e :: es)
  end.

(* response.go:228 StatusCode / :247 ContentLength *)
Definition status_code (r : resp) : Z := if Z.eqb (p_code r) 0 then 200 else p_code r.
Definition content_length (r : resp) : Z := p_clen r.

(* ---- the property's premise: the status is set at most once and before any Write call ---- *)
Definition sets_status (pretty : bool) (o : rop) : bool :=
  match o with
  | OWriteHeader _ | OErrorString _ _ => true
  | OEntity _ found vnil marshal =>
      if negb found then true else if vnil then true
      else match marshal with None => negb pretty | Some _ => true end
  | _ => false
  end.
Definition calls_write (o : rop) : bool :=
  match o with
  | OWrite _ | OErrorString _ _ => true
  | OEntity _ found vnil (Some (_ :: _)) => found && negb vnil
  | _ => false
  end.
Definition pretty_after (pretty : bool) (o : rop) : bool :=
  match o with OPretty b => b | _ => pretty end.
Definition status_arg_ok (o : rop) : bool :=
  match o with
  | OWriteHeader n | OErrorString n _ | OEntity n _ _ _ => Z.leb 100 n
  | _ => true
  end.

Fixpoint wf_ops (started pretty : bool) (ops : list rop) : bool :=
  match ops with
  | [] => true
  | o :: rest =>
      status_arg_ok o &&
      (if sets_status pretty o then negb started else true) &&
      wf_ops (started || sets_status pretty o || calls_write o) (pretty_after pretty o) rest
  end.

(* decoding *)
Definition sx_rop (x : sexp) : rop :=
  match sx_int (sx_nth 0 x) with
  | 0 => OWrite (sx_str (sx_nth 1 x))
  | 1 => OWriteHeader (sx_int (sx_nth 1 x))
  | 2 => OErrorString (sx_int (sx_nth 1 x)) (sx_str (sx_nth 2 x))
  | 3 => OEntity (sx_int (sx_nth 1 x)) (sx_bool (sx_nth 2 x)) (sx_bool (sx_nth 3 x))
                 (match sx_list (sx_nth 4 x) with [] => None | c :: _ => Some (sx_strs c) end)
  | _ => OPretty (sx_bool (sx_nth 1 x))
  end%Z.
Definition sx_script (x : sexp) : list (N * bool) :=
  map (fun y => (sx_N (sx_nth 0 y), sx_bool (sx_nth 1 y))) (sx_list x).

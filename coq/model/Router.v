(* Router.v — SelectRoute of both routers, parameter extraction
   (path_processor.go) and the routing part of Container.dispatch.
   Definitions only. *)
From Model Require Import Str Sexp Http Template Table Curly DetectRoute Jsr311.

Section WithOracles.
Variable O : oracles.

(* curly.go:19 / jsr311.go:23 SelectRoute *)
Definition select_route (t : table) (req : request) : (service * route) + rerr :=
  match t_router t with
  | Curly =>
      let qts := tokenize (rq_path req) in
      match detect_web_service O qts (t_services t) with
      | None => inr E404
      | Some w =>
        match curly_select_routes O w qts with
        | [] => inr E404
        | cands =>
          match detect_route (map cc_route cands) req with
          | inl r => inl (w, r)
          | inr e => inr e
          end
        end
      end
  | Jsr311 =>
      match detect_dispatcher O (rq_path req) (t_services t) with
      | None => inr E404
      | Some (w, fin) =>
        match jsr_select_routes O w fin with
        | [] => inr E404
        | cands =>
          match detect_route (map rc_route cands) req with
          | inl r => inl (w, r)
          | inr e => inr e
          end
        end
      end
  end.

(* a parameter map under construction: later bindings replace earlier ones *)
Fixpoint pset (k v : str) (m : list (str * str)) : list (str * str) :=
  match m with
  | [] => [(k, v)]
  | (k', v') :: m' => if str_eqb k k' then (k, v) :: m' else (k', v') :: pset k v m'
  end.

(* path_processor.go:22 defaultPathProcessor.ExtractParameters.
   None = a slice-bounds panic. *)
Fixpoint extract_loop (hcv : bool) (i : nat) (parts : list str) (url : list str)
         (acc : list (str * str)) : option (list (str * str)) :=
  match parts with
  | [] => Some acc
  | key0 :: parts' =>
    let value0 := nth i url [] in
    let verb := hcv && has_custom_verb key0 in
    let key := if verb then remove_custom_verb key0 else key0 in
    let value := if verb then remove_custom_verb value0 else value0 in
    match index_char key lbrace with
    | None => extract_loop hcv (S i) parts' url acc
    | Some start =>
      match index_char key colon with
      | Some c =>
          if negb (slice_ok key (c + 1) (List.length key - 1) && slice_ok key 1 c) then None
          else
            let reg := slice key (c + 1) (List.length key - 1) in
            let name := slice key 1 c in
            if str_eqb reg (L "*") then Some (pset name (untokenize i url) acc)   (* break *)
            else extract_loop hcv (S i) parts' url (pset name value acc)
      | None =>
          match index_char key rbrace with
          | None => None                                   (* key[start+1 : -1] *)
          | Some e =>
            let suffix_len := List.length key - e - 1 in
            if negb (Nat.leb (start + 1) e) then None
            else if Nat.ltb (List.length value) (start + suffix_len) then None   (* value[start:end] out of range *)
            else
              let name := slice key (start + 1) e in
              let v := slice value start (List.length value - suffix_len) in
              extract_loop hcv (S i) parts' url (pset name v acc)
          end
      end
    end
  end.

Definition curly_extract_parameters (w : service) (r : route) (path : str) : option (list (str * str)) :=
  extract_loop (route_hcv w r) 0 (route_parts w r) (tokenize path) [].

Definition extract_parameters (t : table) (w : service) (r : route) (path : str)
  : option (list (str * str)) :=
  match t_router t with
  | Curly => curly_extract_parameters w r path
  | Jsr311 =>
      match jsr_extract_parameters O w r path with
      | Some l => Some (fold_left (fun m kv => pset (fst kv) (snd kv) m) l [])
      | None => None
      end
  end.

(* outcome of routing a request, as far as Container.dispatch decides it *)
Inductive routed :=
| RInvoke (w : service) (r : route) (params : list (str * str))
| RError (e : rerr)
| RPanic.

Definition route_request (t : table) (req : request) : routed :=
  match select_route t req with
  | inr e => RError e
  | inl (w, r) =>
    match extract_parameters t w r (rq_path req) with
    | Some ps => RInvoke w r ps
    | None => RPanic
    end
  end.

End WithOracles.

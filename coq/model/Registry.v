(* Registry.v — mirrors Container.Add / addHandler / isPatternMapped / Remove /
   Handle (container.go), WebService.Route / RemoveRoute (web_service.go) and the
   net/http ServeMux the container registers on (the pre-1.22 semantics that
   the module's go directive selects: exact pattern, longest "/"-terminated
   prefix, redirect p -> p/, clean-path redirect, panic on a duplicate pattern).
   Definitions only. *)
From Model Require Import Str Sexp Http Template Table Curly DetectRoute Jsr311 Router.

(* ---- net/http ServeMux ---- *)
Inductive target := TDispatch | TPlain (id : Z).
Definition mux := list (str * target).          (* in registration order *)

Definition mux_has (m : mux) (p : str) : bool := existsb (fun e => str_eqb (fst e) p) m.

(* ServeMux.Handle: None = panic (empty or duplicate pattern) *)
Definition mux_handle (m : mux) (p : str) (t : target) : option mux :=
  match p with
  | [] => None
  | _ => if mux_has m p then None else Some (m ++ [(p, t)])
  end.

Definition ends_with_slash (p : str) : bool := match rev p with c :: _ => Ascii.eqb c slash | [] => false end.

(* ServeMux.match: the exact pattern, else the longest pattern ending in "/" that is a prefix *)
Definition mux_match (m : mux) (path : str) : option (str * target) :=
  match find (fun e => str_eqb (fst e) path) m with
  | Some e => Some e
  | None =>
      fold_left (fun best e =>
                   if ends_with_slash (fst e) && has_prefix path (fst e) &&
                      match best with None => true | Some b => Nat.ltb (length (fst b)) (length (fst e)) end
                   then Some e else best) m None
  end.

(* path.Clean on a rooted path: drop empty and "." elements, ".." removes the element before it *)
Fixpoint clean_segs (stack : list str) (segs : list str) : list str :=
  match segs with
  | [] => rev stack
  | s :: rest =>
      if str_eqb s [] || str_eqb s (L ".") then clean_segs stack rest
      else if str_eqb s (L "..") then clean_segs (match stack with _ :: st => st | [] => [] end) rest
      else clean_segs (s :: stack) rest
  end.
Definition path_clean_rooted (p : str) : str := slash :: join [slash] (clean_segs [] (split slash p)).

(* net/http cleanPath *)
Definition clean_path (p : str) : str :=
  match p with
  | [] => [slash]
  | c :: _ =>
      let p := if Ascii.eqb c slash then p else slash :: p in
      let np := path_clean_rooted p in
      if ends_with_slash p && negb (str_eqb np [slash]) then
        if Nat.eqb (length p) (length np + 1) && has_prefix p np then p else np ++ [slash]
      else np
  end.

Inductive mux_answer :=
| MRedirect (loc : str)                 (* 301 *)
| MTarget (t : target)
| MNotFound.                            (* the mux's own 404 *)

(* ServeMux.Handler for a request path (no host patterns, method not CONNECT) *)
Definition mux_serve (m : mux) (url_path : str) : mux_answer :=
  let path := clean_path url_path in
  if negb (mux_has m path) && mux_has m (path ++ [slash]) && negb (ends_with_slash path)
  then MRedirect (path ++ [slash])
  else if negb (str_eqb path url_path) then MRedirect path
  else match mux_match m url_path with
       | Some e => MTarget (snd e)
       | None => MNotFound
       end.

(* ---- the container ---- *)
Record cstate := {
  cs_objs : list (str * list route);   (* every WebService object of the history: root -> its routes now *)
  cs_reg : list str;                   (* Container.webServices: roots, in registration order *)
  cs_mux : mux;                        (* Container.ServeMux *)
  cs_root : bool;                      (* Container.isRegisteredOnRoot *)
  cs_plain : list (str * Z)            (* Container.plainHandlers *)
}.

Definition cs_init : cstate :=
  {| cs_objs := []; cs_reg := []; cs_mux := []; cs_root := false; cs_plain := [] |}.

(* container.go fixedPrefixPath: up to the first "{" *)
Definition fixed_prefix (root : str) : str :=
  match index_char root lbrace with Some i => firstn i root | None => root end.

(* container.go isPatternMapped *)
Definition pattern_mapped (p : str) (mapped : list str) : bool :=
  existsb (fun root => let q := fixed_prefix root in
                       str_eqb q p || (negb (ends_with_slash q) && str_eqb (q ++ [slash]) p)) mapped.

Inductive failure := FPanic | FExit.

(* container.go addHandler: the new mux and whether "/" was registered; None = the mux panicked *)
Definition add_handler (root : str) (m : mux) (mapped : list str) : option (mux * bool) :=
  let pattern := fixed_prefix root in
  if str_eqb pattern [slash] || str_eqb pattern [] then
    match mux_handle m [slash] TDispatch with Some m' => Some (m', true) | None => None end
  else
    let step1 := if pattern_mapped pattern mapped then Some m else mux_handle m pattern TDispatch in
    match step1 with
    | None => None
    | Some m1 =>
        if negb (ends_with_slash pattern) && negb (pattern_mapped (pattern ++ [slash]) mapped)
        then match mux_handle m1 (pattern ++ [slash]) TDispatch with Some m2 => Some (m2, false) | None => None end
        else Some (m1, false)
    end.

(* Container.Add's mux part / the loop of Container.Remove: map the services one after the
   other until one of them sits on "/" *)
Fixpoint rebuild (roots : list str) (m : mux) (isroot : bool) (mapped : list str) : option (mux * bool) :=
  match roots with
  | [] => Some (m, isroot)
  | r :: rest =>
      if isroot then rebuild rest m true (mapped ++ [r])
      else match add_handler r m mapped with
           | None => None
           | Some (m', isroot') => rebuild rest m' isroot' (mapped ++ [r])
           end
  end.

Fixpoint handle_all (plain : list (str * Z)) (m : mux) : option mux :=
  match plain with
  | [] => Some m
  | (p, id) :: rest => match mux_handle m p (TPlain id) with Some m' => handle_all rest m' | None => None end
  end.

Inductive regop :=
| RAdd (root : str) (routes : list route)      (* routes appended to the object first, then Container.Add *)
| RRemove (root : str)
| RRoute (root : str) (r : route)
| RRemoveRoute (root : str) (path method : str)
| RHandle (pattern : str) (id : Z).

Definition obj_routes (objs : list (str * list route)) (root : str) : list route :=
  match assoc root objs with Some l => l | None => [] end.
Fixpoint obj_set (objs : list (str * list route)) (root : str) (l : list route) : list (str * list route) :=
  match objs with
  | [] => [(root, l)]
  | (k, v) :: rest => if str_eqb k root then (k, l) :: rest else (k, v) :: obj_set rest root l
  end.

(* web_service.go:80 Path: an empty root is stored as "/" *)
Definition norm_root (root : str) : str := ws_path root.

Definition cs_step (s : cstate) (o : regop) : cstate + failure :=
  match o with
  | RAdd root0 routes =>
      let root := norm_root root0 in
      let objs := obj_set (cs_objs s) root (obj_routes (cs_objs s) root ++ routes) in
      if mem root (cs_reg s) then inr FExit                       (* duplicate root path: os.Exit(1) *)
      else if cs_root s then
        inl {| cs_objs := objs; cs_reg := cs_reg s ++ [root]; cs_mux := cs_mux s; cs_root := true; cs_plain := cs_plain s |}
      else
        match add_handler root (cs_mux s) (cs_reg s) with
        | None => inr FPanic
        | Some (m, isroot) =>
            inl {| cs_objs := objs; cs_reg := cs_reg s ++ [root]; cs_mux := m; cs_root := isroot; cs_plain := cs_plain s |}
        end
  | RRemove root0 =>
      let root := norm_root root0 in
      (* rebuild: a new mux, the remaining services re-mapped, the plain handlers again *)
      let remaining := filter (fun r => negb (str_eqb r root)) (cs_reg s) in
      let rebuilt := rebuild remaining [] false [] in
      match rebuilt with
      | None => inr FPanic
      | Some (m, isroot) =>
          match handle_all (cs_plain s) m with
          | None => inr FPanic
          | Some m' => inl {| cs_objs := cs_objs s; cs_reg := remaining; cs_mux := m'; cs_root := isroot; cs_plain := cs_plain s |}
          end
      end
  | RRoute root0 r =>
      let root := norm_root root0 in
      inl {| cs_objs := obj_set (cs_objs s) root (obj_routes (cs_objs s) root ++ [r]); cs_reg := cs_reg s;
             cs_mux := cs_mux s; cs_root := cs_root s; cs_plain := cs_plain s |}
  | RRemoveRoute root0 path method =>
      let root := norm_root root0 in
      let keep := filter (fun r => negb (str_eqb (r_method r) method && str_eqb (concat_path root (r_rel r)) path))
                         (obj_routes (cs_objs s) root) in
      inl {| cs_objs := obj_set (cs_objs s) root keep; cs_reg := cs_reg s;
             cs_mux := cs_mux s; cs_root := cs_root s; cs_plain := cs_plain s |}
  | RHandle p id =>
      match mux_handle (cs_mux s) p (TPlain id) with
      | None => inr FPanic
      | Some m => inl {| cs_objs := cs_objs s; cs_reg := cs_reg s; cs_mux := m; cs_root := cs_root s;
                         cs_plain := cs_plain s ++ [(p, id)] |}
      end
  end.

(* ---- the premise of C11, as a checkable predicate on histories ---- *)
(* a plain pattern never collides with what a service of the history can put on the mux *)
Definition plain_compatible (roots : list str) (p : str) : bool :=
  negb (str_eqb p []) && negb (str_eqb p [slash]) &&
  forallb (fun r => let q := fixed_prefix r in negb (str_eqb q p) && negb (str_eqb (q ++ [slash]) p)) roots.

(* a root is not added while it is registered (roots pairwise different), a plain pattern is registered once *)
Definition reg_op_ok (roots plainU : list str) (s : cstate) (o : regop) : bool :=
  match o with
  | RAdd root _ => negb (mem (norm_root root) (cs_reg s)) && mem (norm_root root) roots
  | RHandle p _ => mem p plainU && negb (existsb (fun ph => str_eqb (fst ph) p) (cs_plain s))
  | _ => true
  end.

Fixpoint reg_ops_ok (roots plainU : list str) (s : cstate) (ops : list regop) : bool :=
  match ops with
  | [] => true
  | o :: rest => reg_op_ok roots plainU s o &&
                 match cs_step s o with inl s' => reg_ops_ok roots plainU s' rest | inr _ => false end
  end.

(* a history; the index of the first failing operation, if any *)
Fixpoint cs_run (s : cstate) (ops : list regop) (k : nat) : cstate * option (nat * failure) :=
  match ops with
  | [] => (s, None)
  | o :: rest => match cs_step s o with
                 | inl s' => cs_run s' rest (S k)
                 | inr f => (s, Some (k, f))
                 end
  end.

(* a history in which the caller recovered from refused calls and went on with the container: an operation flagged
   [true] is one the implementation refused.  The model checks that it HAD to be refused (else it counts an anomaly)
   and leaves the state as it is; the other operations run as in [cs_run]. *)
Fixpoint cs_run_skip (s : cstate) (ops : list (bool * regop)) (k anom : nat) : cstate * option (nat * failure) * nat :=
  match ops with
  | [] => (s, None, anom)
  | (true, o) :: rest =>
      match cs_step s o with
      | inr _ => cs_run_skip s rest (S k) anom
      | inl _ => cs_run_skip s rest (S k) (S anom)
      end
  | (false, o) :: rest =>
      match cs_step s o with
      | inl s' => cs_run_skip s' rest (S k) anom
      | inr f => (s, Some (k, f), anom)
      end
  end.
(* the operations of such a history that were carried out *)
Definition accepted_ops (ops : list (bool * regop)) : list regop := map snd (filter (fun x => negb (fst x)) ops).

(* the route table a registration state stands for *)
Definition cs_table (rt : router) (s : cstate) : table :=
  {| t_router := rt;
     t_services := map (fun root => {| s_root := root; s_routes := obj_routes (cs_objs s) root |}) (cs_reg s) |}.

(* a freshly built container with the same content, in the same order: the services are
   added one by one, then the plain handlers are registered *)
Definition cs_fresh (s : cstate) : cstate * option (nat * failure) :=
  cs_run {| cs_objs := cs_objs s; cs_reg := []; cs_mux := []; cs_root := false; cs_plain := [] |}
         (map (fun root => RAdd root []) (cs_reg s) ++ map (fun ph => RHandle (fst ph) (snd ph)) (cs_plain s)) 0.

(* answers *)
Inductive reg_answer :=
| GRedirect (loc : str)
| GPlain (id : Z)
| GMux404
| GRouted (x : routed).

Section WithOracles.
Variable O : oracles.

Definition serve_http (rt : router) (s : cstate) (req : request) : reg_answer :=
  match mux_serve (cs_mux s) (rq_path req) with
  | MRedirect loc => GRedirect loc
  | MNotFound => GMux404
  | MTarget (TPlain id) => GPlain id
  | MTarget TDispatch => GRouted (route_request O (cs_table rt s) req)
  end.

Definition serve_dispatch (rt : router) (s : cstate) (req : request) : reg_answer :=
  GRouted (route_request O (cs_table rt s) req).

End WithOracles.

(* decoding *)
Definition sx_rop_reg (x : sexp) : regop :=
  match sx_int (sx_nth 0 x) with
  | 0 => RAdd (sx_str (sx_nth 1 x)) (map sx_route (sx_list (sx_nth 2 x)))
  | 1 => RRemove (sx_str (sx_nth 1 x))
  | 2 => RRoute (sx_str (sx_nth 1 x)) (sx_route (sx_nth 2 x))
  | 3 => RRemoveRoute (sx_str (sx_nth 1 x)) (sx_str (sx_nth 2 x)) (sx_str (sx_nth 3 x))
  | _ => RHandle (sx_str (sx_nth 1 x)) (sx_int (sx_nth 2 x))
  end%Z.

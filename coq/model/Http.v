(* Http.v — requests, header maps and the oracles standing for library code
   that is not go-restful's own (see DESIGN 3.3). Definitions only. *)
From Model Require Import Str Sexp.

Record request := {
  rq_method : str;
  rq_path : str;                    (* URL.Path, raw bytes *)
  rq_headers : list (str * str);    (* canonical name -> what Header.Get returns *)
  rq_clen : Z                       (* the ContentLength field *)
}.

Definition hget (r : request) (k : str) : str :=
  match assoc k (rq_headers r) with Some v => v | None => [] end.

(* External library behaviour, supplied per case by the harness (computed with
   the Go standard library) and universally quantified in theorems. *)
Record oracles := {
  o_lower : str -> str;             (* strings.ToLower *)
  o_rx : str -> str -> bool;        (* regexp.MatchString(re, s): unanchored *)
  o_rxfull : str -> str -> bool     (* whole segment s matches (re) *)
}.

(* a header map under construction: Add appends, in order *)
Definition headers := list (str * str).
Definition hadd (h : headers) (k v : str) : headers := h ++ [(k, v)].

Definition H_Origin := L "Origin".
Definition H_Accept := L "Accept".
Definition H_ContentType := L "Content-Type".
Definition H_ContentLength := L "Content-Length".
Definition H_AcceptEncoding := L "Accept-Encoding".
Definition H_ContentEncoding := L "Content-Encoding".
Definition H_Allow := L "Allow".
Definition H_ACRequestMethod := L "Access-Control-Request-Method".
Definition H_ACRequestHeaders := L "Access-Control-Request-Headers".
Definition H_ACAllowMethods := L "Access-Control-Allow-Methods".
Definition H_ACAllowOrigin := L "Access-Control-Allow-Origin".
Definition H_ACAllowCredentials := L "Access-Control-Allow-Credentials".
Definition H_ACAllowHeaders := L "Access-Control-Allow-Headers".
Definition H_ACExposeHeaders := L "Access-Control-Expose-Headers".
Definition H_ACMaxAge := L "Access-Control-Max-Age".

(* decoding from the exchange format *)
Definition sx_pair (x : sexp) : str * str := (sx_str (sx_nth 0 x), sx_str (sx_nth 1 x)).
Definition sx_request (x : sexp) : request :=
  {| rq_method := sx_str (sx_nth 0 x);
     rq_path := sx_str (sx_nth 1 x);
     rq_headers := map sx_pair (sx_list (sx_nth 2 x));
     rq_clen := sx_int (sx_nth 3 x) |}.

(* oracle tables: association lists; a miss falls back to the ASCII definition
   (lower) or to false (regex) — the harness tabulates every string the code
   can pass, so a miss on non-ASCII input shows up as a disagreement *)
Definition tab_lower (t : list (str * str)) (s : str) : str :=
  match assoc s t with Some v => v | None => lower_ascii s end.
Fixpoint tab_rx (t : list (str * str * bool)) (re s : str) : bool :=
  match t with
  | [] => false
  | (re', s', b) :: t' => if str_eqb re re' && str_eqb s s' then b else tab_rx t' re s
  end.
Definition sx_rxrow (x : sexp) : str * str * bool :=
  (sx_str (sx_nth 0 x), sx_str (sx_nth 1 x), sx_bool (sx_nth 2 x)).
Definition sx_oracles (x : sexp) : oracles :=
  {| o_lower := tab_lower (map sx_pair (sx_list (sx_nth 0 x)));
     o_rx := tab_rx (map sx_rxrow (sx_list (sx_nth 1 x)));
     o_rxfull := tab_rx (map sx_rxrow (sx_list (sx_nth 2 x))) |}.

(* canonical form of a header list: grouped by name (values in Add order),
   names sorted — what a Go http.Header can show *)
Fixpoint hvalues (k : str) (h : headers) : list str :=
  match h with
  | [] => []
  | (k', v) :: h' => if str_eqb k k' then v :: hvalues k h' else hvalues k h'
  end.
Fixpoint nodup_str (l : list str) : list str :=
  match l with
  | [] => []
  | x :: l' => if mem x l' then nodup_str l' else x :: nodup_str l'
  end.
Definition canon_headers (h : headers) : sexp :=
  Lst (map (fun k => Lst [A k; of_strs (hvalues k h)]) (sort_strs (nodup_str (map fst h)))).

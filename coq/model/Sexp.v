(* Sexp.v — the exchange format between the Go harness, the OCaml driver and
   the model.  Atoms are raw byte strings (hex on disk), integers are Z. *)
From Model Require Import Str.

Inductive sexp : Type :=
| A (s : str)
| I (z : Z)
| Lst (l : list sexp).

Definition sx_str (x : sexp) : str := match x with A s => s | _ => [] end.
Definition sx_int (x : sexp) : Z := match x with I z => z | _ => 0%Z end.
Definition sx_nat (x : sexp) : nat := Z.to_nat (sx_int x).
Definition sx_N (x : sexp) : N := Z.to_N (sx_int x).
Definition sx_bool (x : sexp) : bool := negb (Z.eqb (sx_int x) 0).
Definition sx_list (x : sexp) : list sexp := match x with Lst l => l | _ => [] end.
Definition sx_strs (x : sexp) : list str := map sx_str (sx_list x).
Definition sx_nth (n : nat) (x : sexp) : sexp := nth n (sx_list x) (Lst []).

Definition of_bool (b : bool) : sexp := I (if b then 1 else 0)%Z.
Definition of_nat (n : nat) : sexp := I (Z.of_nat n).
Definition of_N (n : N) : sexp := I (Z.of_N n).
Definition of_strs (l : list str) : sexp := Lst (map A l).
Definition of_opt_str (o : option str) : sexp :=
  match o with Some s => Lst [A s] | None => Lst [] end.

(* insertion sort of strings (canonical form of sets in observations) *)
Fixpoint insert_str (x : str) (l : list str) : list str :=
  match l with
  | [] => [x]
  | y :: l' => if str_ltb y x then y :: insert_str x l' else x :: l
  end.
Definition sort_strs (l : list str) : list str := fold_right insert_str [] l.

(* structural equality of observations *)
Fixpoint sexp_eqb (a b : sexp) : bool :=
  match a, b with
  | A x, A y => str_eqb x y
  | I x, I y => Z.eqb x y
  | Lst l, Lst m =>
      (fix go (l m : list sexp) : bool :=
         match l, m with
         | [], [] => true
         | x :: l', y :: m' => sexp_eqb x y && go l' m'
         | _, _ => false
         end) l m
  | _, _ => false
  end.

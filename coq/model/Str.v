(* Str.v — byte strings as [list ascii] and the subset of Go's [strings] package
   that go-restful uses.  Definitions only (no proofs): the model must keep
   running when a proof breaks.  Lemmas live in proofs/StrFacts.v. *)
From Coq Require Export Ascii String DecimalString Bool Arith NArith ZArith List.
Export ListNotations.
Open Scope list_scope.

Definition str := list ascii.

(* literal: [L "gzip"] *)
Definition L (s : string) : str := list_ascii_of_string s.

Fixpoint str_eqb (a b : str) : bool :=
  match a, b with
  | [], [] => true
  | x :: a', y :: b' => Ascii.eqb x y && str_eqb a' b'
  | _, _ => false
  end.

(* bytewise lexicographic "<" : Go's string comparison *)
Fixpoint str_ltb (a b : str) : bool :=
  match a, b with
  | [], [] => false
  | [], _ :: _ => true
  | _ :: _, [] => false
  | x :: a', y :: b' =>
      if N.ltb (N_of_ascii x) (N_of_ascii y) then true
      else if N.ltb (N_of_ascii y) (N_of_ascii x) then false
      else str_ltb a' b'
  end.

(* strings.HasPrefix *)
Fixpoint has_prefix (s p : str) {struct p} : bool :=
  match p with
  | [] => true
  | c :: p' => match s with
               | [] => false
               | d :: s' => Ascii.eqb d c && has_prefix s' p'
               end
  end.

(* strings.HasSuffix *)
Definition has_suffix (s p : str) : bool := has_prefix (rev s) (rev p).

(* strings.Index: first position of [sub] in [s] *)
Fixpoint index_from (i : nat) (s sub : str) : option nat :=
  if has_prefix s sub then Some i
  else match s with
       | [] => None
       | _ :: s' => index_from (S i) s' sub
       end.
Definition index (s sub : str) : option nat := index_from 0 s sub.

(* strings.Contains *)
Definition contains (s sub : str) : bool :=
  match index s sub with Some _ => true | None => false end.

(* index of a single byte *)
Fixpoint index_char_from (i : nat) (s : str) (c : ascii) : option nat :=
  match s with
  | [] => None
  | x :: s' => if Ascii.eqb x c then Some i else index_char_from (S i) s' c
  end.
Definition index_char (s : str) (c : ascii) : option nat := index_char_from 0 s c.

(* strings.Split(s, c) for a one-byte separator; never returns [] *)
Fixpoint split (c : ascii) (s : str) : list str :=
  match s with
  | [] => [[]]
  | x :: s' =>
      if Ascii.eqb x c then [] :: split c s'
      else match split c s' with
           | [] => [[x]]
           | h :: t => (x :: h) :: t
           end
  end.

(* strings.Join(l, sep) *)
Fixpoint join (sep : str) (l : list str) : str :=
  match l with
  | [] => []
  | [x] => x
  | x :: rest => x ++ sep ++ join sep rest
  end.

(* strings.TrimLeft / TrimRight / Trim with a one-byte cutset *)
Fixpoint trim_left (c : ascii) (s : str) : str :=
  match s with
  | [] => []
  | x :: s' => if Ascii.eqb x c then trim_left c s' else s
  end.
Definition trim_right (c : ascii) (s : str) : str := rev (trim_left c (rev s)).
Definition trim (c : ascii) (s : str) : str := trim_right c (trim_left c s).

(* s[i:j] ; Go panics when the bounds are off, the callers check [slice_ok] *)
Definition slice (s : str) (i j : nat) : str := firstn (j - i) (skipn i s).
Definition slice_ok (s : str) (i j : nat) : bool :=
  Nat.leb i j && Nat.leb j (length s).

Definition zero : ascii := Ascii.zero.
Definition slash : ascii := "/"%char.
Definition space : ascii := " "%char.
Definition comma : ascii := ","%char.
Definition semi : ascii := ";"%char.
Definition colon : ascii := ":"%char.
Definition lbrace : ascii := "{"%char.
Definition rbrace : ascii := "}"%char.
Definition equals : ascii := "="%char.

(* ASCII letters *)
Definition is_letter (c : ascii) : bool :=
  let n := N_of_ascii c in
  (N.leb 65 n && N.leb n 90) || (N.leb 97 n && N.leb n 122).

(* ASCII-only lower-casing; [strings.ToLower] on non-ASCII input is an oracle *)
Definition lower_ascii_char (c : ascii) : ascii :=
  let n := N_of_ascii c in
  if N.leb 65 n && N.leb n 90 then ascii_of_N (n + 32) else c.
Definition lower_ascii (s : str) : str := map lower_ascii_char s.
Definition is_ascii (s : str) : bool :=
  forallb (fun c => N.ltb (N_of_ascii c) 128) s.

(* association lists keyed by strings *)
Fixpoint assoc {A} (k : str) (l : list (str * A)) : option A :=
  match l with
  | [] => None
  | (k', v) :: l' => if str_eqb k k' then Some v else assoc k l'
  end.

Fixpoint mem (x : str) (l : list str) : bool :=
  match l with
  | [] => false
  | y :: l' => str_eqb x y || mem x l'
  end.

(* decimal rendering: strconv.Itoa on non-negative numbers *)
Definition itoa_N (n : N) : str := L (NilEmpty.string_of_uint (N.to_uint n)).
Definition itoa (z : Z) : str :=
  match z with
  | Zneg p => "-"%char :: itoa_N (Npos p)
  | _ => itoa_N (Z.to_N z)
  end.

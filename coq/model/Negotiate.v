(* Negotiate.v — mirrors mime.go (sortedMimes, insertMime) and Response.EntityWriter
   (response.go:84) with entityReaderWriters.accessorAt.  strconv.ParseFloat is an
   oracle that ranks the q strings of the header.  Definitions only. *)
From Model Require Import Str Sexp.

Section WithOracle.
(* the rank of the float a q string parses to (order-isomorphic to the floats), None = ParseFloat fails *)
Variable qrank : str -> option Z.

Definition rank_one : Z := match qrank (L "1") with Some z => z | None => 0%Z end.

(* strings.SplitN(p, "=", 2) with both parts *)
Definition split_eq (p : str) : option (str * str) :=
  match index_char p equals with
  | Some i => Some (firstn i p, skipn (S i) p)
  | None => None
  end.

Inductive qfound := QAbsent | QBad | QVal (z : Z).

(* the first parameter named q decides (mime.go: break) *)
Fixpoint find_q (params : list str) : qfound :=
  match params with
  | [] => QAbsent
  | p :: rest =>
      match split_eq p with
      | Some (k, v) =>
          if str_eqb (trim space k) (L "q")
          then match qrank (trim space v) with Some z => QVal z | None => QBad end
          else find_q rest
      | None => find_q rest
      end
  end.

(* one element of the Accept header: media type and quality; None = dropped (unparsable q) *)
Definition parse_range (each : str) : option (str * Z) :=
  match split semi each with
  | [] => None
  | m :: params =>
      match find_q params with
      | QAbsent => Some (trim space m, rank_one)
      | QBad => None
      | QVal z => Some (trim space m, z)
      end
  end.

(* mime.go:14 insertMime: before the first entry of strictly lower quality *)
Fixpoint insert_mime (l : list (str * Z)) (e : str * Z) : list (str * Z) :=
  match l with
  | [] => [e]
  | x :: l' => if Z.ltb (snd x) (snd e) then e :: l else x :: insert_mime l' e
  end.

Definition sort_ranges (ranges : list (str * Z)) : list (str * Z) := fold_left insert_mime ranges [].

Definition parsed_ranges (accept : str) : list (str * Z) :=
  flat_map (fun each => match parse_range each with Some e => [e] | None => [] end) (split comma accept).

Definition sorted_mimes (accept : str) : list (str * Z) := sort_ranges (parsed_ranges accept).

End WithOracle.

(* accessorAt on a registry given by its keys: the exact key, else the first key, in sorted order, that is contained
   in the value (fix F10; before it the map was ranged over, and ANY contained key could be the answer) *)
Definition accessor_keys (reg : list str) (mime : str) : list str :=
  if mem mime reg then [mime]
  else match sort_strs (filter (fun k => contains mime k) reg) with [] => [] | k :: _ => [k] end.

Fixpoint first_nonempty {A} (l : list (list A)) : list A :=
  match l with
  | [] => []
  | [] :: rest => first_nonempty rest
  | x :: _ => x
  end.

(* what one Accept range selects (response.go:91-105) *)
Definition choose (reg produces : list str) (media : str) : list str :=
  match first_nonempty (map (fun p => if str_eqb p media then accessor_keys reg media else []) produces) with
  | [] => if str_eqb media (L "*/*") then first_nonempty (map (accessor_keys reg) produces) else []
  | l => l
  end.

Definition MIME_JSON := L "application/json".
Definition MIME_XML := L "application/xml".
Definition MIME_ZIP := L "application/zip".

(* response.go:84 EntityWriter: the possible Content-Types of the chosen writer; [] = none (406) *)
Definition entity_writer (qrank : str -> option Z) (reg produces : list str) (dflt accept0 : str) : list str :=
  let accept := match accept0 with [] => L "*/*" | _ => accept0 end in
  match first_nonempty (map (fun r => choose reg produces (fst r)) (sorted_mimes qrank accept)) with
  | [] =>
      match accessor_keys reg accept0 with
      | [] =>
          if str_eqb dflt MIME_JSON then accessor_keys reg MIME_JSON
          else if str_eqb dflt MIME_XML then accessor_keys reg MIME_XML
          else if str_eqb dflt MIME_ZIP then accessor_keys reg MIME_ZIP
          else first_nonempty (map (accessor_keys reg) produces)
      | l => l
      end
  | l => l
  end.

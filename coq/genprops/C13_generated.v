(* C13, the per-run instance: the provider methods AS TRANSLATED FROM /repo ON THIS RUN
   have the shapes the theorems are about and consist of always-enabled steps only. *)
From Model Require Import Pool.
From Proofs Require Import PoolProofs.
From Gen Require Import Generated_Pool.
From Coq Require Import List String Bool. Import ListNotations.

Eval vm_compute in (filter (fun e => negb (nb_prog (snd e))) (pool_acquires ++ pool_releases)).

Theorem generated_shapes :
  forallb (fun e => is_acquire (snd e)) pool_acquires && forallb (fun e => is_release (snd e)) pool_releases = true.
Proof. vm_compute. reflexivity. Qed.

Theorem generated_nonblocking :
  forallb (fun e => nb_prog (snd e)) (pool_acquires ++ pool_releases) = true.
Proof. vm_compute. reflexivity. Qed.

(* hence: clients that run any translated acquire followed by any translated release, any
   number of rounds, are never blocked, at any capacity, under any schedule *)
Theorem generated_clients_never_block :
  forall cap sched i (choice : list (nat * nat * nat)),
    let progs := map (fun c => let '(a, r, n) := c in
                        rounds_prog (snd (nth a pool_acquires ("", []))) (snd (nth r pool_releases ("", []))) n) choice in
    blocked (prun (pinit cap progs) sched) i = false.
Proof.
  intros cap sched i choice progs. apply nonblocking. subst progs. rewrite Forall_map. apply Forall_forall.
  intros [[a r] n] _. apply rounds_nb.
  - pose proof generated_nonblocking as G. rewrite forallb_app in G. apply andb_true_iff in G as [G _].
    rewrite forallb_forall in G. destruct (nth_in_or_default a pool_acquires ("", [])) as [H|H]; [exact (G _ H)|now rewrite H].
  - pose proof generated_nonblocking as G. rewrite forallb_app in G. apply andb_true_iff in G as [_ G].
    rewrite forallb_forall in G. destruct (nth_in_or_default r pool_releases ("", [])) as [H|H]; [exact (G _ H)|now rewrite H].
Qed.
Print Assumptions generated_clients_never_block.

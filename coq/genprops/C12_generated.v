(* C12, the per-run instance: the lock / access table AS TRANSLATED FROM /repo ON THIS RUN
   passes the lockset check, so C12_no_race and C12_no_deadlock apply to it. *)
From Model Require Import Conc.
From Proofs Require Import ConcProofs.
From Gen Require Import Generated_Locks.
From Coq Require Import List String. Import ListNotations.

(* the offending accesses, if any (printed for the counter-example search) *)
Eval vm_compute in (offenders lock_table).

Theorem generated_lockset_ok : lockset_ok lock_table = true.
Proof. vm_compute. reflexivity. Qed.

Theorem generated_race_free :
  forall (sel : list nat) (sched : list nat) i j ti tj a b,
    let paths := map (fun k => snd (nth k lock_table (""%string, []))) sel in
    let ts := crun (init_threads paths) sched in
    i <> j -> nth_error ts i = Some ti -> nth_error ts j = Some tj ->
    next_ev ti = Some a -> next_ev tj = Some b -> conflicting a b = false.
Proof.
  intros sel sched i j ti tj a b paths ts. apply lockset_sound. subst paths.
  rewrite forallb_forall. intros p Hp. apply in_map_iff in Hp as (k & <- & _).
  pose proof generated_lockset_ok as G. unfold lockset_ok in G. rewrite forallb_forall in G.
  destruct (nth_in_or_default k lock_table (""%string, [])) as [H|H]; [exact (G _ H)|now rewrite H].
Qed.
Print Assumptions generated_race_free.

(* the request paths translated on this run have the step structure model/Linear.v assumes
   (C12_linearisation): one read-locked section holding every read of the service list and
   of route slices, the service list first *)
Theorem generated_selection_is_one_section : selection_shapes_ok lock_table = true.
Proof. vm_compute. reflexivity. Qed.

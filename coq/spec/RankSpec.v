(* RankSpec.v — "more specific" for C03 / C18: literal-over-variable dominance
   between templates, shapes of root paths, and the class predicates of the
   known findings.  Definitions only. *)
From Model Require Import Str Sexp Http Template Table Curly DetectRoute Jsr311 Router.
From Spec Require Import RouteSpec.
From Coq Require Import Permutation.

Definition is_lit (t : vtok) : bool := match v_tk t with TLit _ => true | _ => false end.

(* r1 >= r2: same length, and wherever r2 has a literal r1 has (the same) literal *)
Fixpoint tpl_ge (a b : list vtok) : bool :=
  match a, b with
  | [], [] => true
  | x :: a', y :: b' =>
      (if is_lit y then match v_tk x, v_tk y with TLit s, TLit s' => str_eqb s s' | _, _ => false end
       else true)
      && tpl_ge a' b'
  | _, _ => false
  end.
(* strictly more specific: a literal where the other has a variable, same shape otherwise *)
Definition dominates (a b : list vtok) : bool := tpl_ge a b && negb (tpl_ge b a).

(* two templates of the same literal/variable shape (they differ only in variable
   names or constraints) *)
Fixpoint same_shape (a b : list vtok) : bool :=
  match a, b with
  | [], [] => true
  | x :: a', y :: b' =>
      (match v_tk x, v_tk y with
       | TLit s, TLit s' => str_eqb s s'
       | TLit _, _ => false
       | _, TLit _ => false
       | _, _ => true
       end) && same_shape a' b'
  | _, _ => false
  end.

(* templates without a custom verb (":verb" on the last segment) *)
Definition no_verbs (tpl : list vtok) : bool :=
  forallb (fun t => match v_verb t with None => true | Some _ => false end) tpl.

Definition root_tpl (w : service) : list vtok := map (parse_tok false) (tokenize (s_root w)).

Fixpoint is_strict_prefix (a b : list vtok) : bool :=   (* a is a proper prefix of b, shape-wise *)
  match a, b with
  | [], _ :: _ => true
  | x :: a', y :: b' => same_shape [x] [y] && is_strict_prefix a' b'
  | _, _ => false
  end.

Fixpoint pairwise {A} (p : A -> A -> bool) (l : list A) : bool :=
  match l with
  | [] => true
  | x :: l' => forallb (p x) l' && pairwise p l'
  end.

Section Rank.
Variable O : oracles.

(* CurlyRouter: which services claim the URL, and with what score *)
Definition claiming (t : table) (qts : list str) : list (service * nat) :=
  flat_map (fun w => let '(m, sc) := compute_webservice_score O qts (tokenize (s_root w)) in
                     if m then [(w, sc)] else []) (t_services t).

(* K-C03-1: two claiming services of different shape tie on the best score *)
Definition score_tie (t : table) (qts : list str) : bool :=
  let cl := claiming t qts in
  let best := fold_left Nat.max (map snd cl) 0 in
  let top := filter (fun ws => Nat.eqb (snd ws) best) cl in
  negb (pairwise (fun a b => same_shape (root_tpl (fst a)) (root_tpl (fst b))) top)
  || Nat.ltb 1 (List.length top).

(* the table is one C03 speaks about *)
Definition route_key (w : service) (r : route) : str := r_method r ++ [space] ++ route_path w r.
Definition c03_in_scope (t : table) : bool :=
  forallb (fun w => distinct (map (route_key w) (s_routes w))
                    && pairwise (fun a b => negb (str_eqb (r_method a) (r_method b)
                                                   && same_shape (route_tpl w a) (route_tpl w b)))
                                (s_routes w)) (t_services t)
  && pairwise (fun a b => negb (same_shape (root_tpl a) (root_tpl b))) (t_services t)
  && match t_router t with
     | Curly => true
     | Jsr311 => forallb (fun w => forallb is_lit (root_tpl w)) (t_services t)
     end.

(* fully eligible routes of a service *)
Definition eligible (t : table) (w : service) (req : request) : list route :=
  filter (fun r => admits_for O t w r req) (s_routes w).

(* the invoked route is not dominated by another eligible route of its service, and its
   service's root is neither dominated by nor a proper prefix of another claiming root *)
Definition best_match_ok (t : table) (w : service) (r : route) (req : request) : bool :=
  forallb (fun r' => negb (dominates (route_tpl w r') (route_tpl w r))) (eligible t w req)
  && match t_router t with
     | Curly =>
         forallb (fun ws => negb (dominates (root_tpl (fst ws)) (root_tpl w))
                            && negb (is_strict_prefix (root_tpl w) (root_tpl (fst ws))))
                 (claiming t (tokenize (rq_path req)))
     | Jsr311 => true
     end.

(* C18: the common fragment, and the classes of the two known findings *)
Definition plain_tok (t : vtok) : bool :=
  match v_tk t, v_verb t with TLit _, None => true | TVar _, None => true | _, _ => false end.
Definition c18_fragment (t : table) : bool :=
  forallb (fun w => forallb is_lit (root_tpl w) && forallb plain_tok (root_tpl w)
                    && forallb (fun r => forallb plain_tok (route_tpl w r)
                                         && forallb (wf_tok_str false) (route_parts w r)) (s_routes w))
          (t_services t).

(* ---- C18, the positive half: premises of the agreement theorem ---- *)
Fixpoint strs_eqb (a b : list str) : bool :=
  match a, b with
  | [], [] => true
  | x :: a', y :: b' => str_eqb x y && strs_eqb a' b'
  | _, _ => false
  end.
Fixpoint forall2b {A B} (p : A -> B -> bool) (a : list A) (b : list B) : bool :=
  match a, b with
  | [], [] => true
  | x :: a', y :: b' => p x y && forall2b p a' b'
  | _, _ => false
  end.

(* a path as clients send it: a leading slash, then non-empty segments, then at most one
   trailing slash — stated as: both routers cut it into the same non-empty pieces *)
Definition c18_clean (p : str) : bool :=
  match path_segs p with
  | Some segs =>
      let toks := tokenize p in
      forallb (fun s => negb (str_eqb s [])) toks
      && (strs_eqb segs toks || strs_eqb segs (toks ++ [[]]))
  | None => false
  end.

(* a literal, non-empty token *)
Definition lit_tok (t : str) : bool := negb (has_prefix t [lbrace]) && negb (str_eqb t []).
(* literal non-empty root tokens, pairwise different roots *)
Definition roots_literal (wss : list service) : bool := forallb (fun w => forallb lit_tok (tokenize (s_root w))) wss.
Definition roots_distinct (wss : list service) : bool :=
  pairwise (fun a b => negb (strs_eqb (tokenize (s_root a)) (tokenize (s_root b)))) wss.

(* the two readings of a route's template coincide token by token, and every token is a
   non-empty literal or a plain variable *)
Definition plain_tok_eqb (a b : vtok) : bool :=
  match v_tk a, v_verb a, v_tk b, v_verb b with
  | TLit s, None, TLit s', None => str_eqb s s' && negb (str_eqb s [])
  | TVar n, None, TVar n', None => str_eqb n n'
  | _, _, _, _ => false
  end.
Definition c18_route_ok (w : service) (r : route) : bool :=
  forall2b plain_tok_eqb (route_tpl w r) (jsr_tpl (s_root w) ++ jsr_tpl (r_rel r)).
Definition c18_service_ok (w : service) : bool := forallb (c18_route_ok w) (s_routes w).

(* the fully eligible routes are strictly ordered by literal-over-variable (K-C18-1 is the
   complement together with same-shape twins) *)
Definition c18_chain (w : service) (req : request) : bool :=
  pairwise (fun a b => dominates (route_tpl w a) (route_tpl w b) || dominates (route_tpl w b) (route_tpl w a))
           (filter (fun r => admits O w r req) (s_routes w)).

(* the eligible routes form a chain under literal-over-variable, twins (same shape) allowed *)
Definition c18_chain_weak (w : service) (req : request) : bool :=
  pairwise (fun a b => tpl_ge (route_tpl w a) (route_tpl w b) || tpl_ge (route_tpl w b) (route_tpl w a))
           (filter (fun r => admits O w r req) (s_routes w)).

(* candidates that survive every stage form a chain under literal-over-variable *)
Definition unambiguous (t : table) (req : request) : bool :=
  match detect_web_service O (tokenize (rq_path req)) (t_services t) with
  | None => true
  | Some w =>
      pairwise (fun a b => tpl_ge (route_tpl w a) (route_tpl w b) || tpl_ge (route_tpl w b) (route_tpl w a))
               (filter (fun r => admits O w r req) (s_routes w))
  end.

End Rank.

(* the same outcome: the same route function of the same service with the same parameter
   map, or the same error with the same Allow set *)
Definition rerr_equiv (a b : rerr) : Prop :=
  match a, b with
  | E404, E404 | E415, E415 | E406, E406 => True
  | E405 x, E405 y => forall m, In m x <-> In m y
  | _, _ => False
  end.
Definition routed_equiv (a b : routed) : Prop :=
  match a, b with
  | RInvoke w r ps, RInvoke w' r' ps' => w = w' /\ r = r' /\ ps = ps'
  | RError e, RError e' => rerr_equiv e e'
  | _, _ => False
  end.

(* ---- C03, order independence: the relations the theorems are stated with ---- *)
Definition svc_perm (w w' : service) : Prop := s_root w = s_root w' /\ Permutation (s_routes w) (s_routes w').
(* t' is t with its services, and the routes inside each service, registered in another order *)
Definition tbl_perm (t t' : table) : Prop :=
  exists l, Forall2 svc_perm (t_services t) l /\ Permutation l (t_services t').

(* the same outcome, up to the order in which the (same) routes of the service are stored
   and the order of the Allow list *)
Definition routed_equiv_perm (a b : routed) : Prop :=
  match a, b with
  | RInvoke w r ps, RInvoke w' r' ps' => svc_perm w w' /\ r = r' /\ ps = ps'
  | RError e, RError e' => rerr_equiv e e'
  | RPanic, RPanic => True
  | _, _ => False
  end.


Definition detect_equiv (a b : route + rerr) : Prop :=
  match a, b with
  | inl r, inl r' => r = r'
  | inr e, inr e' => rerr_equiv e e'
  | _, _ => False
  end.


Section Tie.
Variable O : oracles.
Definition claims (qts : list str) (w : service) : bool := fst (compute_webservice_score O qts (tokenize (s_root w))).
Definition score (qts : list str) (w : service) : nat := snd (compute_webservice_score O qts (tokenize (s_root w))).

(* no two different claiming services share the greatest score (the complement is K-C03-1) *)
Definition no_tie (qts : list str) (wss : list service) : Prop :=
  forall w1 w2, In w1 wss -> In w2 wss -> claims qts w1 = true -> claims qts w2 = true ->
                score qts w1 = score qts w2 ->
                (forall w3, In w3 wss -> claims qts w3 = true -> score qts w3 <= score qts w1) -> w1 = w2.

(* the keys of the dispatcher's order for a root, when it matches *)
Definition jsr_key (path : str) (root : str) : option (nat * nat * nat) :=
  let pe := path_expression root in
  match jsr_match O (pe_toks pe) path with
  | Some (caps, _) => Some (S (S (List.length caps)) + pe_groups pe, pe_literal pe, pe_vars pe)
  | None => None
  end.

(* no two different matching roots have the same keys (they would be answered in registration order) *)
Definition jsr_no_tie (path : str) (wss : list service) : Prop :=
  forall w1 w2 k, In w1 wss -> In w2 wss -> jsr_key path (s_root w1) = Some k -> jsr_key path (s_root w2) = Some k ->
                  s_root w1 = s_root w2.


(* the same premises as booleans (evaluated on every generated case) *)
Definition top_unique (qts : list str) (wss : list service) : bool :=
  let best := fold_left Nat.max (flat_map (fun w => if claims qts w then [score qts w] else []) wss) 0 in
  Nat.leb (List.length (filter (fun w => claims qts w && Nat.eqb (score qts w) best) wss)) 1.
Definition key_eqb (a b : nat * nat * nat) : bool :=
  Nat.eqb (fst (fst a)) (fst (fst b)) && Nat.eqb (snd (fst a)) (snd (fst b)) && Nat.eqb (snd a) (snd b).
Definition jsr_keys_unique (path : str) (wss : list service) : bool :=
  distinct (map s_root wss)
  && pairwise (fun a b => match jsr_key path (s_root a), jsr_key path (s_root b) with
                          | Some k1, Some k2 => negb (key_eqb k1 k2)
                          | _, _ => true
                          end) wss.
End Tie.

Definition keys_distinct (t : table) : bool :=
  forallb (fun w => distinct (map (route_key w) (s_routes w))) (t_services t).


(* RankSpec.v — "more specific" for C03 / C18: literal-over-variable dominance
   between templates, shapes of root paths, and the class predicates of the
   known findings.  Definitions only. *)
From Model Require Import Str Sexp Http Template Table Curly DetectRoute Jsr311 Router.
From Spec Require Import RouteSpec.

Definition is_lit (t : vtok) : bool := match v_tk t with TLit _ => true | _ => false end.

(* r1 >= r2: same length, and wherever r2 has a literal r1 has (the same) literal *)
Fixpoint tpl_ge (a b : list vtok) : bool :=
  match a, b with
  | [], [] => true
  | x :: a', y :: b' =>
      (if is_lit y then match v_tk x, v_tk y with TLit s, TLit s' => str_eqb s s' | _, _ => false end
       else true)
      && tpl_ge a' b'
  | _, _ => false
  end.
(* strictly more specific: a literal where the other has a variable, same shape otherwise *)
Definition dominates (a b : list vtok) : bool := tpl_ge a b && negb (tpl_ge b a).

(* two templates of the same literal/variable shape (they differ only in variable
   names or constraints) *)
Fixpoint same_shape (a b : list vtok) : bool :=
  match a, b with
  | [], [] => true
  | x :: a', y :: b' =>
      (match v_tk x, v_tk y with
       | TLit s, TLit s' => str_eqb s s'
       | TLit _, _ => false
       | _, TLit _ => false
       | _, _ => true
       end) && same_shape a' b'
  | _, _ => false
  end.

(* templates without a custom verb (":verb" on the last segment) *)
Definition no_verbs (tpl : list vtok) : bool :=
  forallb (fun t => match v_verb t with None => true | Some _ => false end) tpl.

Definition root_tpl (w : service) : list vtok := map (parse_tok false) (tokenize (s_root w)).

Fixpoint is_strict_prefix (a b : list vtok) : bool :=   (* a is a proper prefix of b, shape-wise *)
  match a, b with
  | [], _ :: _ => true
  | x :: a', y :: b' => same_shape [x] [y] && is_strict_prefix a' b'
  | _, _ => false
  end.

Fixpoint pairwise {A} (p : A -> A -> bool) (l : list A) : bool :=
  match l with
  | [] => true
  | x :: l' => forallb (p x) l' && pairwise p l'
  end.

Section Rank.
Variable O : oracles.

(* CurlyRouter: which services claim the URL, and with what score *)
Definition claiming (t : table) (qts : list str) : list (service * nat) :=
  flat_map (fun w => let '(m, sc) := compute_webservice_score O qts (tokenize (s_root w)) in
                     if m then [(w, sc)] else []) (t_services t).

(* K-C03-1: two claiming services of different shape tie on the best score *)
Definition score_tie (t : table) (qts : list str) : bool :=
  let cl := claiming t qts in
  let best := fold_left Nat.max (map snd cl) 0 in
  let top := filter (fun ws => Nat.eqb (snd ws) best) cl in
  negb (pairwise (fun a b => same_shape (root_tpl (fst a)) (root_tpl (fst b))) top)
  || Nat.ltb 1 (List.length top).

(* the table is one C03 speaks about *)
Definition route_key (w : service) (r : route) : str := r_method r ++ [space] ++ route_path w r.
Definition c03_in_scope (t : table) : bool :=
  forallb (fun w => distinct (map (route_key w) (s_routes w))
                    && pairwise (fun a b => negb (str_eqb (r_method a) (r_method b)
                                                   && same_shape (route_tpl w a) (route_tpl w b)))
                                (s_routes w)) (t_services t)
  && pairwise (fun a b => negb (same_shape (root_tpl a) (root_tpl b))) (t_services t)
  && match t_router t with
     | Curly => true
     | Jsr311 => forallb (fun w => forallb is_lit (root_tpl w)) (t_services t)
     end.

(* fully eligible routes of a service *)
Definition eligible (t : table) (w : service) (req : request) : list route :=
  filter (fun r => admits_for O t w r req) (s_routes w).

(* the invoked route is not dominated by another eligible route of its service, and its
   service's root is neither dominated by nor a proper prefix of another claiming root *)
Definition best_match_ok (t : table) (w : service) (r : route) (req : request) : bool :=
  forallb (fun r' => negb (dominates (route_tpl w r') (route_tpl w r))) (eligible t w req)
  && match t_router t with
     | Curly =>
         forallb (fun ws => negb (dominates (root_tpl (fst ws)) (root_tpl w))
                            && negb (is_strict_prefix (root_tpl w) (root_tpl (fst ws))))
                 (claiming t (tokenize (rq_path req)))
     | Jsr311 => true
     end.

(* C18: the common fragment, and the classes of the two known findings *)
Definition plain_tok (t : vtok) : bool :=
  match v_tk t, v_verb t with TLit _, None => true | TVar _, None => true | _, _ => false end.
Definition c18_fragment (t : table) : bool :=
  forallb (fun w => forallb is_lit (root_tpl w) && forallb plain_tok (root_tpl w)
                    && forallb (fun r => forallb plain_tok (route_tpl w r)
                                         && forallb (wf_tok_str false) (route_parts w r)) (s_routes w))
          (t_services t).

(* ---- C18, the positive half: premises of the agreement theorem ---- *)
Fixpoint strs_eqb (a b : list str) : bool :=
  match a, b with
  | [], [] => true
  | x :: a', y :: b' => str_eqb x y && strs_eqb a' b'
  | _, _ => false
  end.
Fixpoint forall2b {A B} (p : A -> B -> bool) (a : list A) (b : list B) : bool :=
  match a, b with
  | [], [] => true
  | x :: a', y :: b' => p x y && forall2b p a' b'
  | _, _ => false
  end.

(* a path as clients send it: a leading slash, then non-empty segments, then at most one
   trailing slash — stated as: both routers cut it into the same non-empty pieces *)
Definition c18_clean (p : str) : bool :=
  match path_segs p with
  | Some segs =>
      let toks := tokenize p in
      forallb (fun s => negb (str_eqb s [])) toks
      && (strs_eqb segs toks || strs_eqb segs (toks ++ [[]]))
  | None => false
  end.

(* the two readings of a route's template coincide token by token, and every token is a
   non-empty literal or a plain variable *)
Definition plain_tok_eqb (a b : vtok) : bool :=
  match v_tk a, v_verb a, v_tk b, v_verb b with
  | TLit s, None, TLit s', None => str_eqb s s' && negb (str_eqb s [])
  | TVar n, None, TVar n', None => str_eqb n n'
  | _, _, _, _ => false
  end.
Definition c18_route_ok (w : service) (r : route) : bool :=
  forall2b plain_tok_eqb (route_tpl w r) (jsr_tpl (s_root w) ++ jsr_tpl (r_rel r)).
Definition c18_service_ok (w : service) : bool := forallb (c18_route_ok w) (s_routes w).

(* the fully eligible routes are strictly ordered by literal-over-variable (K-C18-1 is the
   complement together with same-shape twins) *)
Definition c18_chain (w : service) (req : request) : bool :=
  pairwise (fun a b => dominates (route_tpl w a) (route_tpl w b) || dominates (route_tpl w b) (route_tpl w a))
           (filter (fun r => admits O w r req) (s_routes w)).

(* candidates that survive every stage form a chain under literal-over-variable *)
Definition unambiguous (t : table) (req : request) : bool :=
  match detect_web_service O (tokenize (rq_path req)) (t_services t) with
  | None => true
  | Some w =>
      pairwise (fun a b => tpl_ge (route_tpl w a) (route_tpl w b) || tpl_ge (route_tpl w b) (route_tpl w a))
               (filter (fun r => admits O w r req) (s_routes w))
  end.

End Rank.

(* the same outcome: the same route function of the same service with the same parameter
   map, or the same error with the same Allow set *)
Definition rerr_equiv (a b : rerr) : Prop :=
  match a, b with
  | E404, E404 | E415, E415 | E406, E406 => True
  | E405 x, E405 y => forall m, In m x <-> In m y
  | _, _ => False
  end.
Definition routed_equiv (a b : routed) : Prop :=
  match a, b with
  | RInvoke w r ps, RInvoke w' r' ps' => w = w' /\ r = r' /\ ps = ps'
  | RError e, RError e' => rerr_equiv e e'
  | _, _ => False
  end.

(* DispatchSpec.v — what C06 / C07 demand of a served request, stated on the
   configuration and the request (not on how dispatch computes it).
   Definitions only. *)
From Model Require Import Str Sexp Http Template Table Curly DetectRoute Jsr311 Router Dispatch.

Section Spec.
Variable O : oracles.

Definition action_is_panic (a : action) : bool := match a with APanic _ => true | _ => false end.
Definition fscript_has_panic (f : fscript) : bool :=
  existsb action_is_panic (f_pre f) || existsb action_is_panic (f_post f).
Definition cfg_has_panic (cfg : dcfg) : bool :=
  existsb fscript_has_panic (d_cfilters cfg)
  || existsb (fun x => existsb fscript_has_panic (snd x)) (d_sfilters cfg)
  || existsb (fun x => existsb fscript_has_panic (snd x)) (d_rfilters cfg)
  || existsb (fun x => existsb action_is_panic (snd x)) (d_handlers cfg)
  || negb (match d_condpanic cfg with [] => true | _ => false end)
  || existsb (fun x => existsb action_is_panic (snd (snd x))) (d_plain cfg).

(* user code that drops the Content-Encoding header from under the framework (scripts may): what the response is
   labelled with is then the script's doing, and C07's label clauses do not speak about it *)
Definition action_drops_ce (a : action) : bool :=
  match a with ADelHeader k => str_eqb k H_ContentEncoding | _ => false end.
Definition fscript_drops_ce (f : fscript) : bool :=
  existsb action_drops_ce (f_pre f) || existsb action_drops_ce (f_post f).
Definition cfg_drops_ce (cfg : dcfg) : bool :=
  existsb fscript_drops_ce (d_cfilters cfg)
  || existsb (fun x => existsb fscript_drops_ce (snd x)) (d_sfilters cfg)
  || existsb (fun x => existsb fscript_drops_ce (snd x)) (d_rfilters cfg)
  || existsb (fun x => existsb action_drops_ce (snd x)) (d_handlers cfg)
  || existsb action_drops_ce (d_recover_script cfg)
  || existsb (fun x => existsb action_drops_ce (snd (snd x))) (d_plain cfg).

(* C06: the order of events.  Filters run container, service, route, each in
   registration order; one that does not pass on stops everything after it;
   the target runs iff all passed; then the filters that were entered finish in
   reverse order. *)
Fixpoint chain_events (fs : list fscript) (target : list str) : list str :=
  match fs with
  | [] => target
  | f :: rest =>
      (L "pre:" ++ f_id f) ::
      (if f_pass f then chain_events rest target else []) ++ [L "post:" ++ f_id f]
  end.

Definition structural_event (e : str) : bool :=
  has_prefix e (L "pre:") || has_prefix e (L "post:") || has_prefix e (L "H:").

(* the handler logs its identity ("H:<id>") and, separately, what it sees of the request
   ("saw:<selected route path> <parameters>"): the latter is not structural *)
Definition strip_event (e : str) : str := e.

Definition expected_events (cfg : dcfg) (req : request) : list str :=
  match route_request O (d_table cfg) req with
  | RInvoke w r ps =>
      chain_events (d_cfilters cfg ++ sfilters_of cfg w ++ rfilters_of cfg r) [L "H:" ++ itoa (r_id r)]
  | RError _ => chain_events (d_cfilters cfg) []     (* only the container filters, around the error writer *)
  | RPanic => []
  end.

(* C06, attributes: with filters that pass on the request they were given (no new wrapper), the
   actions of a request happen in one line — pre parts, the route function, post parts in reverse —
   on ONE attribute map: what a stage sets is what every later stage sees *)
Fixpoint flat_actions (fs : list fscript) (target : list action) : list action :=
  match fs with
  | [] => target
  | f :: rest => f_pre f ++ (if f_pass f then flat_actions rest target else []) ++ f_post f
  end.

Fixpoint attrs_after (l : list action) (attrs : list (str * str)) : list (str * str) :=
  match l with
  | [] => attrs
  | AAttr k v :: l' => attrs_after l' (pset k v attrs)
  | _ :: l' => attrs_after l' attrs
  end.

Fixpoint sees_of (l : list action) (attrs : list (str * str)) : list str :=
  match l with
  | [] => []
  | AAttr k v :: l' => sees_of l' (pset k v attrs)
  | ASee k :: l' => (L "see:" ++ k ++ L "=" ++ attr_get k attrs) :: sees_of l' attrs
  | _ :: l' => sees_of l' attrs
  end.

Definition cfg_has_fresh (cfg : dcfg) : bool :=
  existsb f_fresh (d_cfilters cfg)
  || existsb (fun x => existsb f_fresh (snd x)) (d_sfilters cfg)
  || existsb (fun x => existsb f_fresh (snd x)) (d_rfilters cfg).

Definition expected_sees (cfg : dcfg) (req : request) : list str :=
  match route_request O (d_table cfg) req with
  | RInvoke w r ps =>
      (* the wrapper also carries the selected route and the parameters, under two reserved keys *)
      sees_of (flat_actions (d_cfilters cfg ++ sfilters_of cfg w ++ rfilters_of cfg r) (handler_of cfg r))
              [(K_sel, route_path w r); (K_params, of_params_log ps)]
  | RError _ => sees_of (flat_actions (d_cfilters cfg) []) []
  | RPanic => []
  end.

(* C07: may this response be encoded, and with what *)
Definition accepts (req : request) (word : str) : bool := contains (hget req H_AcceptEncoding) word.

(* encoding enabled for this request: the route's own setting over the container's *)
Definition encoding_enabled (cfg : dcfg) (req : request) : bool :=
  match route_request O (d_table cfg) req with
  | RInvoke _ r _ => match r_enc r with Some b => b | None => d_encoding cfg end
  | _ => d_encoding cfg
  end.

(* [ce]: values of the response's Content-Encoding header; [preset]: what the writer
   carried on arrival; [ok]: the body decoded completely with that coding *)
Definition encoding_ok (cfg : dcfg) (via_servehttp : bool) (req : request) (preset : str)
           (ce : list str) (ok : bool) : bool :=
  match preset with
  | _ :: _ => true            (* covered by encoding_labelled *)
  | [] =>
      match ce with
      | [] => true
      | [c] => implb (str_eqb c (L "gzip") || str_eqb c (L "deflate"))
                     (accepts req c && encoding_enabled cfg req)
      | _ => false            (* never two codings *)
      end
  end.

Definition encoding_labelled (req : request) (preset : str) (ce : list str) (ok : bool) : bool :=
  match preset with
  | _ :: _ => match ce with [c] => str_eqb c preset | _ => false end   (* nothing added when already encoded *)
  | [] => match ce with
          | [] => ok
          | [c] => ok && (str_eqb c (L "gzip") || str_eqb c (L "deflate"))
          | _ => false
          end
  end.

End Spec.

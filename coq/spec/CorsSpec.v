(* CorsSpec.v — what C08/C09 demand, stated without reference to how the filter
   computes it.  Definitions only. *)
From Model Require Import Str Sexp Http Cors.

Section Spec.
Variable O : oracles.

(* C08: the property's notion of an allowed origin *)
Definition allowed (c : cors_cfg) (origin : str) : Prop :=
  origin <> [] /\
  ( (c_domains c = [] /\ c_func c = None)                                  (* no restriction configured *)
    \/ (exists d, In d (c_domains c) /\ o_lower O d = o_lower O origin)    (* one whole entry, ignoring case *)
    \/ In (L ".*") (c_domains c)                                           (* the wildcard entry *)
    \/ (exists f, c_func c = Some f /\                                     (* the predicate accepts it *)
                  f (match c_domains c with [] => o_lower O origin | _ => origin end) = true) ).

(* the same, executable: evaluated on what the implementation did *)
Definition allowedb (c : cors_cfg) (origin : str) : bool :=
  match origin with
  | [] => false
  | _ =>
    match c_domains c, c_func c with
    | [], None => true
    | [], Some f => f (o_lower O origin)
    | ds, fo =>
        existsb (fun d => str_eqb (o_lower O d) (o_lower O origin)) ds
        || mem (L ".*") ds
        || match fo with Some f => f origin | None => false end
    end
  end.

Definition is_grant_name (k : str) : bool := has_prefix k (L "Access-Control-").

Definition count_key (k : str) (h : headers) : nat :=
  List.length (filter (fun kv => str_eqb (fst kv) k) h).

(* C09: what a preflight may be granted *)
Definition header_allowedb (c : cors_cfg) (hd : str) : bool :=
  mem (L "*") (c_headers c)
  || existsb (fun e => str_eqb (o_lower O e) (o_lower O hd)) (c_headers c).

Definition requested_headers (req : request) : list str :=
  match hget req H_ACRequestHeaders with
  | [] => []
  | v => map (trim space) (split comma v)
  end.

Definition preflight_grantedb (c : cors_cfg) (computed : list str) (req : request) : bool :=
  mem (hget req H_ACRequestMethod) (match c_methods c with [] => computed | m => m end)
  && forallb (header_allowedb c) (requested_headers req).

Definition is_preflight (req : request) : bool :=
  str_eqb (rq_method req) (L "OPTIONS")
  && negb (str_eqb (hget req H_ACRequestMethod) []).

End Spec.

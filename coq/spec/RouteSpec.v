(* RouteSpec.v — the structural reading of path templates that C01–C04, C14,
   C17, C18 are stated against.  A template token is one of the documented
   forms; [parse_tok] reads a raw token, [render] writes it back, and a raw
   token is well-formed when it is the rendering of a well-formed structural
   token.  Everything is executable: the same functions are evaluated on what
   the implementation did.  Definitions only. *)
From Model Require Import Str Sexp Http Template Table DetectRoute.

Inductive tk :=
| TLit (s : str)               (* literal segment *)
| TVar (n : str)               (* {n} *)
| TRx (n re : str)             (* {n:re} *)
| TSuf (n suf : str)           (* {n}suf *)
| TTail (n : str).             (* {n:*} — tail wildcard *)

Record vtok := { v_tk : tk; v_verb : option str }.   (* optional custom verb ":verb" *)

Definition render_tk (t : tk) : str :=
  match t with
  | TLit s => s
  | TVar n => [lbrace] ++ n ++ [rbrace]
  | TRx n re => [lbrace] ++ n ++ [colon] ++ re ++ [rbrace]
  | TSuf n suf => [lbrace] ++ n ++ [rbrace] ++ suf
  | TTail n => [lbrace] ++ n ++ L ":*}"
  end.
Definition render (t : vtok) : str :=
  render_tk (v_tk t) ++ match v_verb t with Some v => colon :: v | None => [] end.

Definition parse_tk (s : str) : tk :=
  if has_prefix s [lbrace] then
    match index_char s colon with
    | Some c =>
        let n := slice s 1 c in
        let re := slice s (c + 1) (List.length s - 1) in
        if str_eqb re (L "*") then TTail n else TRx n re
    | None =>
        match index_char s rbrace with
        | Some e =>
            let n := slice s 1 e in
            let suf := skipn (e + 1) s in
            match suf with [] => TVar n | _ => TSuf n suf end
        | None => TLit s
        end
    end
  else TLit s.

(* [hcv]: the route's full path ends in a custom verb (Route.hasCustomVerb) *)
Definition parse_tok (hcv : bool) (s : str) : vtok :=
  if hcv then
    match verb_split s with
    | Some (b, v) => {| v_tk := parse_tk b; v_verb := Some v |}
    | None => {| v_tk := parse_tk s; v_verb := None |}
    end
  else {| v_tk := parse_tk s; v_verb := None |}.

Definition no_char (c : ascii) (s : str) : bool := negb (existsb (Ascii.eqb c) s).
Definition wf_name (n : str) : bool := no_char colon n && no_char lbrace n && no_char rbrace n.

Definition wf_tk (t : tk) : bool :=
  match t with
  | TLit s => no_char lbrace s
  | TVar n => wf_name n
  | TRx n re => wf_name n && negb (str_eqb re (L "*"))
  | TSuf n suf => wf_name n && no_char colon suf && negb (str_eqb suf [])
  | TTail n => wf_name n
  end.

Definition is_tail (t : vtok) : bool := match v_tk t with TTail _ => true | _ => false end.

(* a raw template token is well-formed when it renders back from a well-formed
   structural token *)
Definition wf_tok_str (hcv : bool) (s : str) : bool :=
  let t := parse_tok hcv s in
  str_eqb (render t) s && wf_tk (v_tk t).

(* tail wildcard only in last position; a verb only on the last token and not on a tail *)
Fixpoint wf_positions (l : list vtok) : bool :=
  match l with
  | [] => true
  | [t] => match v_verb t with Some _ => negb (is_tail t) | None => true end
  | t :: l' => negb (is_tail t) && (match v_verb t with None => true | Some _ => false end) && wf_positions l'
  end.

Definition wf_template (hcv : bool) (parts : list str) : bool :=
  forallb (wf_tok_str hcv) parts && wf_positions (map (parse_tok hcv) parts).

Section Spec.
Variable O : oracles.

(* --- admission of a segment by a token (CurlyRouter reading) --- *)
Definition tk_admits (t : tk) (seg : str) : bool :=
  match t with
  | TLit s => str_eqb seg s
  | TVar _ => true
  | TRx _ re => o_rx O re seg
  | TSuf _ suf => has_suffix seg suf
  | TTail _ => true
  end.

(* the segment without its ":verb" *)
Definition strip_verb (v : option str) (seg : str) : option str :=
  match v with
  | None => Some seg
  | Some verb =>
      if has_suffix seg (colon :: verb)
      then Some (firstn (List.length seg - List.length verb - 1) seg)
      else None
  end.

Definition vtok_admits (t : vtok) (seg : str) : bool :=
  match strip_verb (v_verb t) seg with
  | Some base => tk_admits (v_tk t) base
  | None => false
  end.

(* same number of segments unless the template ends in a tail wildcard, which
   stands for one or more remaining segments *)
Fixpoint admits_path (tpl : list vtok) (segs : list str) : bool :=
  match tpl with
  | [] => match segs with [] => true | _ => false end
  | t :: tpl' =>
      match segs with
      | [] => false
      | s :: segs' =>
          if is_tail t then match tpl' with [] => true | _ => false end
          else vtok_admits t s && admits_path tpl' segs'
      end
  end.

(* --- what the variables must be bound to --- *)
Definition tk_binding (t : tk) (base : str) : list (str * str) :=
  match t with
  | TLit _ => []
  | TVar n => [(n, base)]
  | TRx n _ => [(n, base)]
  | TSuf n suf => [(n, firstn (List.length base - List.length suf) base)]
  | TTail n => []
  end.

Fixpoint bindings (tpl : list vtok) (segs : list str) : list (str * str) :=
  match tpl, segs with
  | t :: tpl', s :: segs' =>
      match v_tk t with
      | TTail n => [(n, join [slash] segs)]
      | k => match strip_verb (v_verb t) s with
             | Some base => tk_binding k base
             | None => []
             end ++ bindings tpl' segs'
      end
  | _, _ => []
  end.

(* substituting bindings back into the template *)
Definition lookup (k : str) (b : list (str * str)) : str :=
  match assoc k b with Some v => v | None => [] end.
Definition subst_tk (t : tk) (b : list (str * str)) : str :=
  match t with
  | TLit s => s
  | TVar n => lookup n b
  | TRx n _ => lookup n b
  | TSuf n suf => lookup n b ++ suf
  | TTail n => lookup n b
  end.
Definition subst (tpl : list vtok) (b : list (str * str)) : str :=
  join [slash] (map (fun t => subst_tk (v_tk t) b ++ match v_verb t with Some v => colon :: v | None => [] end) tpl).

Definition tk_names (t : tk) : list str :=
  match t with TLit _ => [] | TVar n => [n] | TRx n _ => [n] | TSuf n _ => [n] | TTail n => [n] end.
Definition tpl_names (tpl : list vtok) : list str := flat_map (fun t => tk_names (v_tk t)) tpl.

(* --- the route as declared --- *)
Definition route_tpl (w : service) (r : route) : list vtok :=
  map (parse_tok (route_hcv w r)) (route_parts w r).

Definition wf_route (w : service) (r : route) : bool :=
  wf_template (route_hcv w r) (route_parts w r).
Definition wf_table (t : table) : bool :=
  forallb (fun w => forallb (wf_route w) (s_routes w)) (t_services t).

Definition conds_hold (r : route) : bool := forallb (fun b => b) (r_conds r).
Definition effective_accept (req : request) : str :=
  match hget req H_Accept with [] => L "*/*" | a => a end.

(* C01: the request is one the route's declaration admits (CurlyRouter) *)
Definition admits (w : service) (r : route) (req : request) : bool :=
  str_eqb (rq_method req) (r_method r)
  && admits_path (route_tpl w r) (tokenize (rq_path req))
  && matches_content_type r (hget req H_ContentType)
  && matches_accept r (effective_accept req)
  && conds_hold r.

End Spec.

(* ------------------------------------------------------------------------- *)
(* RouterJSR311 reading: the template is matched against the path bytes.       *)
(* The path must start with '/', segments are the maximal '/'-free runs, a     *)
(* plain variable needs a non-empty segment, a regex variable a segment that   *)
(* matches its expression entirely, one trailing '/' is tolerated, and the     *)
(* tail wildcard needs the separating slash but accepts zero segments.         *)
Section SpecJsr.
Variable O : oracles.

Definition tk_admits_jsr (t : tk) (seg : str) : bool :=
  match t with
  | TLit s => str_eqb seg s
  | TVar _ => negb (str_eqb seg [])
  | TRx _ re => o_rxfull O re seg
  | TSuf _ _ => false                 (* not a RouterJSR311 form *)
  | TTail _ => false                  (* only as last token, see below *)
  end.

(* segs = the '/'-separated pieces after the leading slash *)
Fixpoint jsr_admits_segs (tpl : list vtok) (segs : list str) : bool :=
  match tpl with
  | [] => match segs with [] => true | [[]] => true | _ => false end
  | t :: tpl' =>
      match segs with
      | [] => false
      | s :: segs' =>
          if is_tail t then
            match tpl' with [] => true | _ => false end
          else tk_admits_jsr (v_tk t) s && jsr_admits_segs tpl' segs'
      end
  end.

Fixpoint jsr_bindings (tpl : list vtok) (segs : list str) : list (str * str) :=
  match tpl, segs with
  | t :: tpl', s :: segs' =>
      match v_tk t with
      | TTail n => [(n, join [slash] segs)]
      | TLit _ => jsr_bindings tpl' segs'
      | TVar n => (n, s) :: jsr_bindings tpl' segs'
      | TRx n _ => (n, s) :: jsr_bindings tpl' segs'
      | TSuf n _ => (n, s) :: jsr_bindings tpl' segs'
      end
  | _, _ => []
  end.

Definition path_segs (p : str) : option (list str) :=
  match p with
  | c :: p' => if Ascii.eqb c slash then Some (split slash p') else None
  | [] => None
  end.

(* the non-empty tokens of a template, parsed (RouterJSR311 skips empty tokens) *)
(* RouterJSR311 reads a variable JAX-RS style: blanks around the name and around the expression do not count
   (path_expression.go trims both), so "{ id }" declares id and "{n : [0-9]+}" declares n with [0-9]+ *)
Definition jsr_trim_tk (t : tk) : tk :=
  match t with
  | TVar n => TVar (trim_space n)
  | TRx n re => let re' := trim_space re in if str_eqb re' (L "*") then TTail (trim_space n) else TRx (trim_space n) re'
  | TTail n => TTail (trim_space n)
  | other => other
  end.
Definition jsr_parse_tk (s : str) : tk := jsr_trim_tk (parse_tk s).
Definition jsr_parse_tok (s : str) : vtok := {| v_tk := jsr_parse_tk s; v_verb := None |}.
Definition jsr_tpl (template : str) : list vtok :=
  map jsr_parse_tok (filter (fun t => negb (str_eqb t [])) (tokenize template)).

Definition jsr_admits_path (w : service) (r : route) (p : str) : bool :=
  let rt := jsr_tpl (s_root w) in
  let tt := jsr_tpl (r_rel r) in
  match p with
  | [] => match rt, tt with [], [] => true | _, _ => false end
  | _ =>
    match path_segs p with
    | None => false
    | Some segs =>
        jsr_admits_segs (rt ++ tt) segs
    end
  end.

Definition jsr_wf_tk (t : tk) : bool :=
  match t with
  | TLit s => no_char lbrace s && negb (str_eqb s [])
  | TVar n => wf_name n
  | TRx n re => wf_name n && negb (str_eqb re (L "*"))
  | TSuf _ _ => false
  | TTail n => wf_name n
  end.
Fixpoint tail_only_last (l : list vtok) : bool :=
  match l with
  | [] => true
  | [t] => true
  | t :: l' => negb (is_tail t) && tail_only_last l'
  end.
Definition jsr_wf_template (template : str) : bool :=
  let parts := filter (fun t => negb (str_eqb t [])) (tokenize template) in
  forallb (fun s => str_eqb (render (parse_tok false s)) s && jsr_wf_tk (v_tk (parse_tok false s))) parts.
Definition jsr_wf_route (w : service) (r : route) : bool :=
  jsr_wf_template (s_root w) && jsr_wf_template (r_rel r)
  && tail_only_last (jsr_tpl (s_root w) ++ jsr_tpl (r_rel r)).

Definition jsr_admits (w : service) (r : route) (req : request) : bool :=
  str_eqb (rq_method req) (r_method r)
  && jsr_admits_path w r (rq_path req)
  && matches_content_type r (hget req H_ContentType)
  && matches_accept r (effective_accept req)
  && conds_hold r.

Definition jsr_route_bindings (w : service) (r : route) (p : str) : list (str * str) :=
  match path_segs p with
  | Some segs => jsr_bindings (jsr_tpl (s_root w) ++ jsr_tpl (r_rel r)) segs
  | None => []
  end.

End SpecJsr.

(* ------------------------------------------------------------------------- *)
(* RouterJSR311: when is the compiled expression of a template its structural reading *)
(* the structural token a compiled expression token stands for *)
Definition conv (t : tk) : option etok :=
  match t with
  | TLit s => Some (ELit s)
  | TVar _ => Some EVar
  | TRx _ re => Some (ERx re)
  | TTail _ => Some EAll
  | TSuf _ _ => None
  end.

Definition etok_eqb (a b : etok) : bool :=
  match a, b with
  | ELit s, ELit s' => str_eqb s s'
  | EVar, EVar => true
  | ERx r, ERx r' => str_eqb r r'
  | EAll, EAll => true
  | _, _ => false
  end.

(* the premise under which the expression compiled from a template is the structural reading of that template:
   token by token, path_expression.go's classification agrees with the documented forms (a boolean, evaluated on
   every generated case) *)
Definition tokens_agree (template : str) : bool :=
  forallb (fun s => match conv (jsr_parse_tk s) with
                    | Some e => etok_eqb (fst (etok_of s)) e
                    | None => false
                    end)
          (filter (fun t => negb (str_eqb t [])) (tokenize template)).

Definition jsr_tokens_agree (w : service) (r : route) : bool :=
  tokens_agree (s_root w) && tokens_agree (r_rel r).

(* ... and the variable names path_expression.go records (VarNames) are the names of the structural tokens *)
Definition tk_name (t : tk) : option str :=
  match t with TLit _ => None | TVar n | TRx n _ | TSuf n _ | TTail n => Some n end.
Definition opt_str_eqb (a b : option str) : bool :=
  match a, b with Some x, Some y => str_eqb x y | None, None => true | _, _ => false end.
Definition names_agree (template : str) : bool :=
  forallb (fun s => opt_str_eqb (snd (etok_of s)) (tk_name (jsr_parse_tk s)))
          (filter (fun t => negb (str_eqb t [])) (tokenize template)).
Definition jsr_names_agree (w : service) (r : route) : bool :=
  names_agree (s_root w) && names_agree (r_rel r).

(* ------------------------------------------------------------------------- *)
(* RouterJSR311 and the trailing slash (C14): the tables the theorem is about *)
Section SpecSlashJsr.
Variable O : oracles.
(* expression tokens without tail wildcard, literals non-empty, regexes not matching "" *)
Definition etok_plain (e : etok) : bool :=
  match e with
  | ELit s => negb (str_eqb s [])
  | EVar => true
  | ERx re => negb (o_rxfull O re [])
  | EAll => false
  end.

(* which tables: no tail wildcard, literals non-empty (they are: empty tokens are skipped), regexes refuse "" *)
Definition template_plain (template : str) : bool := forallb etok_plain (pe_toks (path_expression template)).
Definition table_plain (t : table) : bool :=
  forallb (fun w => template_plain (s_root w) && forallb (fun r => template_plain (r_rel r)) (s_routes w)) (t_services t).

End SpecSlashJsr.

(* ------------------------------------------------------------------------- *)
(* router-independent wrappers                                                *)
Section SpecBoth.
Variable O : oracles.

Definition wf_route_for (t : table) (w : service) (r : route) : bool :=
  match t_router t with Curly => wf_route w r | Jsr311 => jsr_wf_route w r end.
Definition admits_for (t : table) (w : service) (r : route) (req : request) : bool :=
  match t_router t with Curly => admits O w r req | Jsr311 => jsr_admits O w r req end.
Definition bindings_for (t : table) (w : service) (r : route) (p : str) : list (str * str) :=
  match t_router t with
  | Curly => bindings (route_tpl w r) (tokenize p)
  | Jsr311 => jsr_route_bindings w r p
  end.
Definition names_for (t : table) (w : service) (r : route) : list str :=
  match t_router t with
  | Curly => tpl_names (route_tpl w r)
  | Jsr311 => tpl_names (jsr_tpl (s_root w) ++ jsr_tpl (r_rel r))
  end.

Fixpoint distinct (l : list str) : bool :=
  match l with [] => true | x :: l' => negb (mem x l') && distinct l' end.

End SpecBoth.

(* ------------------------------------------------------------------------- *)
(* C02: the exact outcome, as a cascade over sets of routes                    *)
Inductive soutcome :=
| SInvoke (ids : list Z)            (* exactly one of these route functions runs, once *)
| SStatus (code : Z) (allow : list str).

Section SpecOutcome.
Variable O : oracles.

(* [admitting]: the routes of the best-matching service whose template admits the path *)
Definition spec_cascade (admitting : list route) (req : request) : soutcome :=
  let R0 := filter conds_hold admitting in
  match R0 with
  | [] => SStatus 404 []
  | _ =>
    let R1 := filter (fun r => str_eqb (rq_method req) (r_method r)) R0 in
    match R1 with
    | [] => SStatus 405 (map r_method R0)
    | _ =>
      let R2 := filter (fun r => matches_content_type r (hget req H_ContentType)) R1 in
      let R3 := filter (fun r => matches_accept r (effective_accept req)) R2 in
      match R3 with
      | _ :: _ => SInvoke (map r_id R3)
      | [] =>
        let body_sent := Z.ltb 0 (rq_clen req) in
        let m := rq_method req in
        let len := hget req H_ContentLength in
        let bodiless_write := (str_eqb m (L "POST") || str_eqb m (L "PUT") || str_eqb m (L "PATCH"))
                              && (str_eqb len [] || str_eqb len (L "0")) in
        match R2 with
        | [] => if body_sent || bodiless_write then SStatus 415 [] else SStatus 406 []
        | _ => if bodiless_write then SStatus 415 [] else SStatus 406 []
        end
      end
    end
  end.

(* does an observed (class, status, Allow set, invoked ids) meet the outcome? *)
Definition outcome_meets (s : soutcome) (class status : Z) (allow : list str) (invoked : list Z) : bool :=
  match s with
  | SInvoke ids =>
      Z.eqb class 0 && match invoked with [id] => existsb (Z.eqb id) ids | _ => false end
  | SStatus code al =>
      Z.eqb class 1 && Z.eqb status code
      && match invoked with [] => true | _ => false end
      && forallb (fun m => mem m allow) al && forallb (fun m => mem m al) allow
  end.

End SpecOutcome.
